#!/bin/sh
# usage: dbg.sh <smt2 file> 'term' 'term' ... : re-solves and prints the model values of the given terms
f="$1"; shift
sed '/^(get-value/d' "$f" > /var/tmp/dbg.smt2
echo "(get-value ($*))" >> /var/tmp/dbg.smt2
z3-new -T:30 /var/tmp/dbg.smt2 | cut -c1-300
