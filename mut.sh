#!/bin/sh
# usage: mut.sh <prop> <file-relative-to-repo> <sed-expr>   -- applies a mutation, runs the quick check, restores the file
P="$1"; F="$2"; E="$3"
cd /repo && cp "$F" /var/tmp/mut.bak && sed -i "$E" "$F"
if cmp -s "$F" /var/tmp/mut.bak; then echo "MUTATION DID NOT APPLY"; fi
git -C /repo diff --stat | tail -1
cd /verif && ./check "$P" 2>&1 | grep -E "VIOLATION|UNDECIDED|^property" | cut -c1-260 | sed 's/replay=[^ ]*//'
cp /var/tmp/mut.bak "/repo/$F"; rm -f /var/tmp/mut.bak
