#!/bin/sh
# usage: confirm_seed.sh <seed-id> <dir with patch.diff demo_test.go meta.json> <package dir for the demo> [go test extra args]
# Confirms in a scratch worktree (outside /repo and /verif): demo passes without the change, fails with it,
# and the existing tests of the listed packages still pass with it. Then stores the seed under /verif/seeded/<id>/.
set -u
ID="$1"; SRC="$2"; PKG="$3"; shift 3
export GOFLAGS=-mod=mod GOPROXY=off GOSUMDB=off GOTOOLCHAIN=local
WT=/tmp/confirm-$ID-$$
git -C /repo worktree add --detach -q "$WT" HEAD || exit 2
trap 'git -C /repo worktree remove --force "$WT" >/dev/null 2>&1' EXIT
cp "$SRC/demo_test.go" "$WT/$PKG/zz_seed_demo_test.go"
cd "$WT"
echo "== demo on unchanged tree (must pass)"
go test -vet=off -count=1 -timeout 120s "$@" -run . "./$PKG/" >/tmp/confirm-$ID.base 2>&1; B=$?
tail -2 /tmp/confirm-$ID.base
git apply "$SRC/patch.diff" || { echo "PATCH DOES NOT APPLY"; exit 2; }
echo "== demo with the change (must fail)"
go test -vet=off -count=1 -timeout 120s "$@" -run . "./$PKG/" >/tmp/confirm-$ID.mut 2>&1; M=$?
grep -E "^(--- FAIL|FAIL|ok)" /tmp/confirm-$ID.mut | head -5
rm "$WT/$PKG/zz_seed_demo_test.go"
echo "== existing tests with the change (must pass)"
go test -vet=off -count=1 -timeout 600s ./internal/controller/ ./internal/control_loop/ ./internal/util/ ./internal/fans/ ./internal/curves/ ./internal/configuration/ ./internal/persistence/ ./internal/sensors/ >/tmp/confirm-$ID.suite 2>&1; S=$?
grep -E "^(FAIL|ok)" /tmp/confirm-$ID.suite
echo "base=$B mutant=$M suite=$S"
if [ $B -eq 0 ] && [ $M -ne 0 ] && [ $S -eq 0 ]; then
  mkdir -p /verif/seeded/$ID && cp "$SRC/patch.diff" "$SRC/demo_test.go" "$SRC/meta.json" /verif/seeded/$ID/ && echo "CONFIRMED -> /verif/seeded/$ID"
else
  echo "NOT CONFIRMED"
fi
grep -B2 -A8 -- "--- FAIL" /tmp/confirm-$ID.suite | head -30; rm -f /tmp/confirm-$ID.base /tmp/confirm-$ID.mut /tmp/confirm-$ID.suite
