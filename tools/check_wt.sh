#!/bin/sh
# usage: check_wt.sh <seed-id> ... : runs the property's quick check against /tmp/seedwork/wt-<seed-id> (change applied there)
cd /verif
for s in "$@"; do
  p=$(echo "$s" | cut -c1-3)
  out=$(GOVC_NO_CANARIES=1 GOVC_WORK_SUFFIX=-seed ./check "$p" --repo /tmp/seedwork/wt-$s --noevidence 2>&1); rc=$?
  echo "$s rc=$rc n=$(echo "$out" | grep -c VIOLATION) first=$(echo "$out" | grep -m1 -E 'VIOLATION|UNDECIDED' | sed 's/.*obligation=//' | cut -c1-170)"
done
