#!/bin/sh
# applies every behaviour-preserving refactoring under /verif/benign to /repo in turn, runs ALL quick checks,
# restores. Any VIOLATION / UNDECIDED is a false alarm of the machinery.
cd /verif
if [ -n "$(git -C /repo status --porcelain)" ]; then echo "/repo has uncommitted changes - refusing"; exit 2; fi
ids=$(python3 -c "import json;print(' '.join(c['property_id'] for c in json.load(open('MANIFEST.json'))['checks']))")
for d in benign/*.diff; do
  [ -n "${1:-}" ] && [ "$1" != "$(basename $d .diff)" ] && continue
  git -C /repo apply "/verif/$d" || { echo "$(basename $d): patch does not apply"; continue; }
  bad=""
  for p in $ids; do
    out=$(./check "$p" --noevidence 2>&1); rc=$?
    if [ $rc -ne 0 ]; then bad="$bad $p(rc=$rc: $(echo "$out" | grep -E -m1 'VIOLATION|UNDECIDED' | sed 's/replay=[^ ]*//' | cut -c1-160))"; fi
  done
  git -C /repo checkout -- .
  git -C /repo clean -fdq internal cmd 2>/dev/null
  echo "$(basename $d .diff): ${bad:-all checks green}"
done
