#!/bin/sh
# applies every seeded change under /verif/seeded to /repo in turn, runs the property's quick check, undoes the change
cd /verif
if [ -n "$(git -C /repo status --porcelain)" ]; then echo "/repo has uncommitted changes - refusing"; exit 2; fi
for d in seeded/*/; do
  id=$(basename "$d"); [ -n "${1:-}" ] && [ "$1" != "$id" ] && continue
  prop=$(python3 -c "import json;print(json.load(open('$d/meta.json'))['property'])")
  git -C /repo apply "/verif/$d/patch.diff" || { echo "$id: patch does not apply"; continue; }
  out=$(./check "$prop" --noevidence 2>&1); rc=$?   # never overwrite evidence/ with a run on a changed tree
  git -C /repo checkout -- .
  first=$(echo "$out" | grep -m1 VIOLATION | sed 's/.*obligation=//' | cut -c1-150)
  n=$(echo "$out" | grep -c VIOLATION)
  echo "$id prop=$prop exit=$rc violations=$n first=[$first]"
  echo "$id prop=$prop exit=$rc violations=$n first=[$first]" > "$d/result.txt"
done
