#!/usr/bin/env python3
"""Regenerates /verif/MANIFEST.json from the table below (kept in one place so it stays valid)."""
import json, os
ROOT = os.path.dirname(os.path.dirname(os.path.abspath(__file__)))
TECH = "contract-based deductive verification: contracts (//@ comments, build tag verif) on the real functions, VCs generated over go/ssa by govc, discharged by z3-new/cvc5/z3"
BASE_NOTE = ("trusted base (listed per run in evidence.coverage.trusted_base): I/O model of file/command/clock primitives (extern contracts), "
             "closed world for module interfaces, float64 as extended rounded reals, int as mathematical integer unless 'overflow', "
             "each function a sequential atomic step, go/ssa + SMT solvers")
CHECKS = {
 "C10": ("other", "partial proof: the stall branch of calculateTargetPwm (unchanged request, average <= 0 => request+1, floor+1, average re-armed to 1; at the maximum => ErrFanStalledAtMaxPwm, which UpdateFanSpeed returns without writing) and the RPM monitor step (file/cmd fans: the average is the last reading, so one zero reading suffices; non-negativity; floor and last request untouched) are discharged. The necessary condition for a bounded response on hwmon fans - an average in (0,1] collapses to 0 on the next zero reading - fails (known finding with a replay: no raise in 2000 polls). The geometric decay argument linking the per-poll clauses to 'tens of polls' is a meta-argument, not machine-checked", BASE_NOTE),
 "C12": ("proof", "all obligations of FindClosest/getClosest (nearest, member, exact, index safety, overflow, termination), SortedKeys/ExtractKeysWithDistinctValues (ascending, first key of every run of equal outputs, characterised without gaps), updateDistinctPwmValues and setPwm (the only write is pwmMap[nearest supported input]) are discharged for all maps and requests", BASE_NOTE + "; sort.Ints/sort.Slice contract assumed"),
 "C01": ("proof", "every obligation of the regulation step (calculateTargetPwm, setPwm, UpdateFanSpeed, both control loops, all fan backends) is discharged: the request lies in [fan min, fan max], the only PWM write of a cycle is pwmMap[nearest supported input of that request], hence in 0..255 for maps with outputs in 0..255; holds for arbitrary curve values, loop states and RPM histories because the controller invariant ctrlInv is preserved by every step (after the fix: commit 9d733a1)", BASE_NOTE + "; curve evaluation abstracted to an arbitrary int"),
 "C06": ("other", "partial proof. Linear curves: value in 0..255 for every finite sensor average; min/max form equals the documented ramp expression bit-for-bit (congruence over the rounded-real model) with saturation at both ends; step form: CalculateInterpolatedCurveValue is within the step speeds' hull, returns the smallest/largest step's speed outside the range, the step's own speed at a step temperature, and interpolates on the unique adjacent pair (segment identification proved; the in-segment formula itself is attempted, not counted). Function curves: 0..255 for all six types and 1..100000 members, and value == min(255, sum), max(0, first - rest), sum div n, minimum, maximum as stated (delta's exact value attempted, not counted), compositional through the SpeedCurve.Evaluate interface contract. PID curves: range and clamped-term formula for every non-NaN PID term; one known finding (NaN term)", BASE_NOTE + "; registry lookups (GetSensor/GetSpeedCurve) assumed to return registered objects; step temperatures within +-1e6, speeds 0..255"),
 "C08": ("proof", "updateSensor (all four sensor kinds): a poll that returns an error leaves the smoothed value bit-identical; a successful poll yields a finite average inside [min(old, reading), max(old, reading)] for window sizes >= 2 (float64 modelled as rounded reals; readings and averages up to 1e300, |reading - average| >= 1e-290 or equal); every GetValue returns an error when the underlying read failed and only finite values (after fixes 8501fbc, 061db47); UpdateSimpleMovingAvg has a fixpoint at old == new. Not covered: the geometric rate (1-1/n) and window size 1 (double rounding)", BASE_NOTE + "; ParseFloat may return any float on success; the history-level hull follows from the per-poll hull by induction (meta-argument, DESIGN 2.9)"),
 "C13": ("other", "partial proof: ComputePwmBoundaries returns the lowest PWM reaching the highest whole-RPM value (255 when nothing spins) and the lowest PWM with non-zero RPM (unbounded proof with loop invariants over the sorted key list, for all finite data maps with keys 0..255); AttachFanRpmCurveData refuses nil/empty data without touching the limits, never replaces a configured min/start/max (invariant hwCfg, established by NewFan), derives max and - on a first attachment - start from the data; GetMinPwm is 0 without neverStop. One known finding: on a repeated attachment the previously measured start PWM is kept", BASE_NOTE + "; sort.Ints contract assumed; RPM values finite and below 1e15"),
 "C18": ("proof", "CheckFilePermissionsForExecution: err == nil exactly when the path resolves, its metadata can be read, the owner is root, group-write implies group root and others cannot write - one proof for all uid/gid/mode combinations and for symlinks (the predicate is about the resolved path); SafeCmdExecution starts a process only after the check passed in the same call and starts nothing when it fails (ghost counter of started processes); no nil dereference on any stat outcome (after fix c18558b)", BASE_NOTE + "; OS model: EvalSymlinks/Stat/FileInfo.Sys/Mode relate to ghost file metadata"),
 "C19": ("proof", "SafeCmdExecution and the cmd fan methods never panic for any error type returned by exec (after fix 0237c08); the call is bounded because the context carries a deadline and WaitDelay > 0 (preconditions of the assumed os/exec contract, discharged after fix a3325b9); on error the output is empty", BASE_NOTE + "; wall-clock bound rests on os/exec's documented contract (extern), observed only by the replay recipes"),
 "C02": ("other", "partial proof: for hwmon fans every obligation is discharged (request >= effective floor, floor = fan minimum + offset never decreases, a raise makes the request strictly higher, after fix 9d733a1); the clause 'the minimum is the configured minPwm' fails for file and cmd fans, which ignore minPwm - recorded as two known findings with a replay on the real code", BASE_NOTE),
}
NA = {
 "C20": "data-race freedom quantifies over interleavings of unsynchronised accesses; a sequential contract verifier has no thread or happens-before model (DESIGN.md C20)",
}
PENDING = "not yet under contract in this revision (work in progress, see DESIGN.md); no check is claimed"
def main():
    props = [json.loads(l)["id"] for l in open(os.path.join(ROOT, "properties.jsonl"))]
    checks = []
    for pid in props:
        if pid not in CHECKS: continue
        cat, text, note = CHECKS[pid]
        checks.append({"property_id": pid, "quick_cmd": "./check %s --tier quick" % pid, "thorough_cmd": "./check %s --tier thorough" % pid,
                       "evidence_file": "evidence/%s.json" % pid, "replay_cmd_template": "./check --replay {path}", "engine": "govc",
                       "level_claimed": {"category": cat, "text": text, "design_ref": "DESIGN.md section 3, " + pid},
                       "level_note": note, "technique": TECH})
    na = [{"property_id": p, "reason": NA.get(p, PENDING)} for p in props if p not in CHECKS]
    m = {"version": 1, "setup_cmd": "./setup.sh",
         "hooks": {"guard": "verif", "enable": "go/packages load with build tag 'verif' (comment-only contract files internal/*/zz_contracts_verif.go); replays use go test -overlay",
                   "baseline_off_cmd": "cd /repo && GOFLAGS=-mod=mod go test -vet=off -count=1 ./...",
                   "source_commits": os.popen("git -C /repo log --format=%h --grep='^verif:'").read().split(), "add_only": True},
         "engines": [{"name": "govc", "path": "govc/", "serves_properties": sorted(CHECKS), "kind_free_text": "VC generator over go/ssa for contracts in //@ comments; obligations discharged by z3-new / cvc5 / z3"}],
         "checks": checks, "not_applicable": na,
         "notes": "known findings: known_findings.json; replay recipes: replays/; seeded mutants: seeded/"}
    json.dump(m, open(os.path.join(ROOT, "MANIFEST.json"), "w"), indent=1)
    print("checks:", [c["property_id"] for c in checks])
main()
