#!/bin/sh
# builds the VC generator from files on disk only (offline)
set -e
cd "$(dirname "$0")/govc"
export GOFLAGS=-mod=mod GOPROXY=off GOSUMDB=off GOTOOLCHAIN=local CGO_ENABLED=0
go build -o ../bin/govc .
