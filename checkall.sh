#!/bin/sh
# runs every check registered in MANIFEST.json (quick tier) and prints one line each
cd "$(dirname "$0")"
for p in $(python3 -c "import json;print(' '.join(c['property_id'] for c in json.load(open('MANIFEST.json'))['checks']))") "$@"; do
  ./check $p --tier "${TIER:-quick}" 2>&1 | grep -E "VIOLATION|UNDECIDED|^property" | sed 's/replay=[^ ]*//' | cut -c1-220
done
