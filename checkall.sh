#!/bin/sh
# runs the quick tier of every registered check; prints one line per property and a final verdict
cd /verif
ids=$(python3 -c "import json;print(' '.join(c['property_id'] for c in json.load(open('MANIFEST.json'))['checks']))")
bad=0
for p in $ids; do
  out=$(./check "$p" 2>&1); rc=$?
  echo "$out" | grep -E "^property=|^UNDECIDED|^VIOLATION" | cut -c1-230
  if [ $rc -ne 0 ]; then bad=$((bad+1)); echo "  ^^^ $p exit=$rc"; fi
done
echo "ALL-CHECKS non-green=$bad"
