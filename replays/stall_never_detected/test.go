package controller

// Replay recipe (C10): a neverStop hwmon fan that was spinning (average 1000 RPM) stops; with
// rpmRollingWindowSize 10 the stall must be noticed (request raised) within tens of RPM polls.
import (
	"os"
	"path/filepath"
	"testing"

	"github.com/markusressel/fan2go/internal/configuration"
	"github.com/markusressel/fan2go/internal/control_loop"
	"github.com/markusressel/fan2go/internal/fans"
)

type replayFixedCurve struct{ v int }

func (c *replayFixedCurve) GetId() string          { return "replay-fixed" }
func (c *replayFixedCurve) Evaluate() (int, error) { return c.v, nil }
func (c *replayFixedCurve) CurrentValue() int      { return c.v }

func TestReplayStallNeverDetected(t *testing.T) {
	configuration.CurrentConfig.RpmRollingWindowSize = 10
	dir := t.TempDir()
	w := func(name, v string) {
		if err := os.WriteFile(filepath.Join(dir, name), []byte(v), 0644); err != nil {
			t.Fatal(err)
		}
	}
	w("pwm1", "50")
	w("pwm1_enable", "1")
	w("fan1_input", "0") // the fan has stopped
	minPwm, maxPwm := 50, 200
	cfg := configuration.FanConfig{ID: "f", NeverStop: true, MinPwm: &minPwm, MaxPwm: &maxPwm,
		HwMon: &configuration.HwMonFanConfig{PwmPath: filepath.Join(dir, "pwm1"), PwmEnablePath: filepath.Join(dir, "pwm1_enable"), RpmInputPath: filepath.Join(dir, "fan1_input")}}
	fan, _ := fans.NewFan(cfg)
	pm := map[int]int{}
	for i := 0; i <= 255; i++ {
		pm[i] = i
	}
	f := &DefaultFanController{fan: fan, curve: &replayFixedCurve{0}, controlLoop: control_loop.NewDirectControlLoop(nil), pwmMap: pm}
	f.updateDistinctPwmValues()
	fan.SetRpmAvg(1000) // it was spinning before
	first, err := f.calculateTargetPwm()
	if err != nil {
		t.Fatal(err)
	}
	_ = f.setPwm(first)
	const polls = 2000 // 200 x the window size
	for i := 0; i < polls; i++ {
		f.measureRpm(fan)
		target, err := f.calculateTargetPwm()
		if err != nil {
			return
		}
		if target > first {
			return // noticed: request raised
		}
		_ = f.setPwm(target)
	}
	t.Fatalf("VIOLATED C10: fan reports 0 RPM for %d polls (window 10), request never raised above %d; rpm average is %g", polls, first, fan.GetRpmAvg())
}
