package controller

// Replay recipe (C10): a neverStop hwmon fan that was spinning (average 1000 RPM) stops; with
// rpmRollingWindowSize 10 the stall must be noticed (request raised) within tens of RPM polls.
import (
	"os"
	"path/filepath"
	"testing"

	"github.com/markusressel/fan2go/internal/configuration"
	"github.com/markusressel/fan2go/internal/control_loop"
	"github.com/markusressel/fan2go/internal/fans"
)

type replayFixedCurve struct{ v int }

func (c *replayFixedCurve) GetId() string          { return "replay-fixed" }
func (c *replayFixedCurve) Evaluate() (int, error) { return c.v, nil }
func (c *replayFixedCurve) CurrentValue() int      { return c.v }

func TestReplayStallNeverDetected(t *testing.T) {
	// bounded stand-in for the "for every history" part: windows 1..50 x prior averages; for each the stall
	// must be noticed within 12*window+3 polls, then the request must go up by one step per poll until the
	// maximum is reached and the stall is reported as an error.
	for window := 1; window <= 50; window++ {
		for _, prior := range []float64{0, 0.5, 1, 7, 1000, 100000} {
			replayStall(t, window, prior)
		}
	}
}

func replayStall(t *testing.T, window int, prior float64) {
	configuration.CurrentConfig.RpmRollingWindowSize = window
	dir, err := os.MkdirTemp("", "replay-stall")
	if err != nil {
		t.Fatal(err)
	}
	defer os.RemoveAll(dir)
	w := func(name, v string) {
		if err := os.WriteFile(filepath.Join(dir, name), []byte(v), 0644); err != nil {
			t.Fatal(err)
		}
	}
	w("pwm1", "50")
	w("pwm1_enable", "1")
	w("fan1_input", "0") // the fan has stopped
	minPwm, maxPwm := 50, 60
	cfg := configuration.FanConfig{ID: "f", NeverStop: true, MinPwm: &minPwm, MaxPwm: &maxPwm,
		HwMon: &configuration.HwMonFanConfig{PwmPath: filepath.Join(dir, "pwm1"), PwmEnablePath: filepath.Join(dir, "pwm1_enable"), RpmInputPath: filepath.Join(dir, "fan1_input")}}
	fan, _ := fans.NewFan(cfg)
	pm := map[int]int{}
	for i := 0; i <= 255; i++ {
		pm[i] = i
	}
	f := &DefaultFanController{fan: fan, curve: &replayFixedCurve{0}, controlLoop: control_loop.NewDirectControlLoop(nil), pwmMap: pm}
	f.updateDistinctPwmValues()
	fan.SetRpmAvg(prior)
	last := -1
	if prior >= 1 {
		first, err := f.calculateTargetPwm()
		if err != nil {
			t.Fatal(err)
		}
		_ = f.setPwm(first)
		last = first
	} else {
		_ = f.setPwm(minPwm)
		last = minPwm
	}
	budget := 12*window + 3
	sinceRaise := 0
	for i := 0; i < 100000; i++ {
		f.measureRpm(fan)
		sinceRaise++
		target, err := f.calculateTargetPwm()
		if err != nil {
			if err != ErrFanStalledAtMaxPwm || last < maxPwm {
				t.Fatalf("VIOLATED C10: window %d prior %g: unexpected error %v at request %d", window, prior, err, last)
			}
			return // stall reported at the maximum
		}
		if target > last {
			if target != last+1 {
				t.Fatalf("VIOLATED C10: window %d prior %g: request jumped from %d to %d", window, prior, last, target)
			}
			last = target
			sinceRaise = 0
			budget = 2 // after the first raise: one step per poll (the average restarts at 1)
		} else if sinceRaise > budget {
			t.Fatalf("VIOLATED C10: window %d prior %g: fan reports 0 RPM for %d polls, request stays at %d; rpm average is %g", window, prior, sinceRaise, last, fan.GetRpmAvg())
		}
		_ = f.setPwm(target)
	}
	t.Fatalf("VIOLATED C10: window %d prior %g: stall never reported", window, prior)
}
