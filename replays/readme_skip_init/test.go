package controller

// Replay recipe (C15, README clause): an hwmon fan with minPwm and maxPwm configured and nothing stored.
// The README promises that the initialization phase is skipped; the fan must therefore not be written to
// before regulation starts. Real persistence, real HwMonFan on temp files, the real Run.
import (
	"context"
	"os"
	"path/filepath"
	"strings"
	"testing"
	"time"

	"github.com/markusressel/fan2go/internal/configuration"
	"github.com/markusressel/fan2go/internal/control_loop"
	"github.com/markusressel/fan2go/internal/fans"
	"github.com/markusressel/fan2go/internal/persistence"
)

type replayIdleCurve struct{}

func (c *replayIdleCurve) GetId() string          { return "idle" }
func (c *replayIdleCurve) Evaluate() (int, error) { return 100, nil }
func (c *replayIdleCurve) CurrentValue() int      { return 100 }

func TestReplayReadmeSkipInit(t *testing.T) {
	dir := t.TempDir()
	w := func(name, v string) {
		if err := os.WriteFile(filepath.Join(dir, name), []byte(v), 0644); err != nil {
			t.Fatal(err)
		}
	}
	w("pwm1", "123")
	w("pwm1_enable", "2")
	w("fan1_input", "1000")
	minPwm, maxPwm := 30, 200
	pm := map[int]int{0: 0, 255: 255}
	cfg := configuration.FanConfig{ID: "configured", MinPwm: &minPwm, MaxPwm: &maxPwm, PwmMap: &pm,
		HwMon: &configuration.HwMonFanConfig{PwmPath: filepath.Join(dir, "pwm1"), PwmEnablePath: filepath.Join(dir, "pwm1_enable"), RpmInputPath: filepath.Join(dir, "fan1_input")}}
	fan, err := fans.NewFan(cfg)
	if err != nil {
		t.Fatal(err)
	}
	configuration.CurrentConfig.TempSensorPollingRate = 10 * time.Millisecond
	configuration.CurrentConfig.RpmPollingRate = time.Hour
	configuration.CurrentConfig.RunFanInitializationInParallel = true
	p := persistence.NewPersistence(filepath.Join(dir, "fan2go.db"))
	// regulation itself would write too: make the control loop's first tick come late (1 s sleep + rate)
	f := &DefaultFanController{persistence: p, fan: fan, curve: &replayIdleCurve{}, controlLoop: control_loop.NewDirectControlLoop(nil), updateRate: time.Hour}
	ctx, cancel := context.WithCancel(context.Background())
	defer cancel()
	go func() { _ = f.Run(ctx) }()
	deadline := time.Now().Add(6 * time.Second)
	for time.Now().Before(deadline) {
		b, _ := os.ReadFile(filepath.Join(dir, "pwm1"))
		if s := strings.TrimSpace(string(b)); s != "123" && s != "" {
			t.Fatalf("VIOLATED C15 (README): minPwm and maxPwm are configured, yet the fan was put through the initialization sequence (pwm file written: %s, %.1fs after start)", s, 6-time.Until(deadline).Seconds())
		}
		time.Sleep(20 * time.Millisecond)
	}
}
