package util

// Replay recipe: os.Stat failing with an error other than "not exist" (EIO, EACCES on a path
// component, ...) after symlink resolution succeeded. The overlay redirects the single os.Stat call
// of CheckFilePermissionsForExecution to replayStat; everything else is the real function.
import (
	"os"
	"syscall"
	"testing"
)

func replayStat(name string) (os.FileInfo, error) {
	return nil, &os.PathError{Op: "stat", Path: name, Err: syscall.EIO}
}

func TestReplayStatError(t *testing.T) {
	defer func() {
		if r := recover(); r != nil {
			t.Fatalf("VIOLATED C18/C09: CheckFilePermissionsForExecution panicked on a stat error: %v", r)
		}
	}()
	ok, err := CheckFilePermissionsForExecution("/bin/sh")
	if ok || err == nil {
		t.Fatalf("VIOLATED C18: a file whose metadata cannot be read was accepted (ok=%v err=%v)", ok, err)
	}
}
