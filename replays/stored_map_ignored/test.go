package controller

// Replay recipe (C15): a PWM map is stored for the fan; a fresh controller (fresh process) must use it
// and must not sweep the fan. Real persistence on a temp db, real HwMonFan on temp files.
import (
	"os"
	"path/filepath"
	"reflect"
	"strings"
	"testing"

	"github.com/markusressel/fan2go/internal/configuration"
	"github.com/markusressel/fan2go/internal/control_loop"
	"github.com/markusressel/fan2go/internal/fans"
	"github.com/markusressel/fan2go/internal/persistence"
)

func TestReplayStoredMapIgnored(t *testing.T) {
	dir := t.TempDir()
	w := func(name, v string) {
		if err := os.WriteFile(filepath.Join(dir, name), []byte(v), 0644); err != nil {
			t.Fatal(err)
		}
	}
	w("pwm1", "123")
	w("pwm1_enable", "2")
	w("fan1_input", "1000")
	cfg := configuration.FanConfig{ID: "stored", HwMon: &configuration.HwMonFanConfig{PwmPath: filepath.Join(dir, "pwm1"), PwmEnablePath: filepath.Join(dir, "pwm1_enable"), RpmInputPath: filepath.Join(dir, "fan1_input")}}
	fan, err := fans.NewFan(cfg)
	if err != nil {
		t.Fatal(err)
	}
	p := persistence.NewPersistence(filepath.Join(dir, "fan2go.db"))
	stored := map[int]int{0: 0, 10: 40, 200: 250, 255: 255}
	if err := p.SaveFanPwmMap("stored", stored); err != nil {
		t.Fatal(err)
	}
	configuration.CurrentConfig.RunFanInitializationInParallel = true
	f := &DefaultFanController{persistence: p, fan: fan, controlLoop: control_loop.NewDirectControlLoop(nil)} // as NewFanController builds it: pwmMap nil
	if err := f.computePwmMap(); err != nil {
		t.Fatal(err)
	}
	if !reflect.DeepEqual(f.pwmMap, stored) {
		t.Errorf("VIOLATED C15: stored PWM map %v not used; controller has a map of %d entries", stored, len(f.pwmMap))
	}
	b, _ := os.ReadFile(filepath.Join(dir, "pwm1"))
	if strings.TrimSpace(string(b)) != "123" {
		t.Errorf("VIOLATED C15: the fan was written to during start-up although a PWM map is stored (pwm file now %q, was 123)", strings.TrimSpace(string(b)))
	}
	e, _ := os.ReadFile(filepath.Join(dir, "pwm1_enable"))
	if strings.TrimSpace(string(e)) != "2" {
		t.Errorf("VIOLATED C15: control mode changed during start-up although a PWM map is stored (pwm_enable now %q)", strings.TrimSpace(string(e)))
	}
	again, err := p.LoadFanPwmMap("stored")
	if err != nil || !reflect.DeepEqual(again, stored) {
		t.Errorf("VIOLATED C15: stored map changed by start-up: %v %v", again, err)
	}
}
