package controller

// Replay recipe (C16): two fans that both need analysis, parallel initialisation disabled. Each fan is a real
// HwMonFan on temp files wrapped so that every SetPwm is recorded. A write of one fan while the other fan's
// initialisation sequence has started and not yet finished is an overlap.
import (
	"fmt"
	"os"
	"path/filepath"
	"sync"
	"testing"
	"time"

	"github.com/markusressel/fan2go/internal/configuration"
	"github.com/markusressel/fan2go/internal/control_loop"
	"github.com/markusressel/fan2go/internal/fans"
	"github.com/markusressel/fan2go/internal/persistence"
)

type replayRecorder struct {
	mu       sync.Mutex
	started  map[string]bool
	finished map[string]bool
	overlap  string
}

type replayRecFan struct {
	*fans.HwMonFan
	rec *replayRecorder
}

func (r *replayRecFan) SetPwm(pwm int) error {
	r.rec.mu.Lock()
	id := r.GetId()
	r.rec.started[id] = true
	for other := range r.rec.started {
		if other != id && !r.rec.finished[other] && r.rec.overlap == "" {
			r.rec.overlap = fmt.Sprintf("fan %s written (pwm %d) while the analysis of fan %s is in progress", id, pwm, other)
		}
	}
	r.rec.mu.Unlock()
	return r.HwMonFan.SetPwm(pwm)
}

func TestReplayInitOverlap(t *testing.T) {
	configuration.CurrentConfig.RunFanInitializationInParallel = false
	configuration.CurrentConfig.FanResponseDelay = 0
	configuration.CurrentConfig.MaxRpmDiffForSettledFan = 20
	rec := &replayRecorder{started: map[string]bool{}, finished: map[string]bool{}}
	// not t.TempDir(): the second sequence is still running when the test returns, and a cleanup that
	// races with its file writes would fail the test for a reason unrelated to the property
	root, err := os.MkdirTemp("", "replay-init-overlap")
	if err != nil {
		t.Fatal(err)
	}
	defer func() { _ = os.RemoveAll(root) }()
	p := persistence.NewPersistence(filepath.Join(root, "fan2go.db"))
	done := make(chan string, 2)
	for _, id := range []string{"A", "B"} {
		dir := filepath.Join(root, id)
		_ = os.MkdirAll(dir, 0755)
		for name, v := range map[string]string{"pwm1": "100", "pwm1_enable": "1", "fan1_input": "1000"} {
			if err := os.WriteFile(filepath.Join(dir, name), []byte(v), 0644); err != nil {
				t.Fatal(err)
			}
		}
		fan, err := fans.NewFan(configuration.FanConfig{ID: id, HwMon: &configuration.HwMonFanConfig{PwmPath: filepath.Join(dir, "pwm1"), PwmEnablePath: filepath.Join(dir, "pwm1_enable"), RpmInputPath: filepath.Join(dir, "fan1_input")}})
		if err != nil {
			t.Fatal(err)
		}
		f := &DefaultFanController{persistence: p, fan: &replayRecFan{HwMonFan: fan.(*fans.HwMonFan), rec: rec}, controlLoop: control_loop.NewDirectControlLoop(nil)}
		go func(id string) {
			_ = f.RunInitializationSequence()
			rec.mu.Lock()
			rec.finished[id] = true
			rec.mu.Unlock()
			done <- id
		}(id)
	}
	deadline := time.After(60 * time.Second)
	for {
		select {
		case <-done:
			// the first sequence is complete: no write of the other fan may have happened meanwhile
			rec.mu.Lock()
			o := rec.overlap
			rec.mu.Unlock()
			if o != "" {
				t.Fatalf("VIOLATED C16: %s", o)
			}
			return
		case <-time.After(100 * time.Millisecond):
			rec.mu.Lock()
			o := rec.overlap
			rec.mu.Unlock()
			if o != "" {
				t.Fatalf("VIOLATED C16: %s", o)
			}
		case <-deadline:
			t.Skip("no initialisation sequence finished within 60 s")
		}
	}
}
