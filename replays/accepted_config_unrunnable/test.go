package curves

// Replay recipe (C11): YAML text -> real loader (viper + decode hooks) -> real validator. A document that is
// accepted must be runnable; the three documents below are not (evaluating them panics, or the fan gets a nil
// control loop), so the validator has to reject them. Documented forms must still be accepted.
import (
	"fmt"
	"os"
	"path/filepath"
	"testing"

	"github.com/markusressel/fan2go/internal/configuration"
	"github.com/markusressel/fan2go/internal/sensors"
	"github.com/spf13/viper"
)

const replayHead = `
sensors:
  - id: s1
    file:
      path: /tmp/replay_s1
`

func replayLoad(t *testing.T, doc string) error {
	dir := t.TempDir()
	p := filepath.Join(dir, "fan2go.yaml")
	if err := os.WriteFile(p, []byte(doc), 0600); err != nil {
		t.Fatal(err)
	}
	viper.Reset()
	configuration.InitConfig(p)
	if err := viper.ReadInConfig(); err != nil {
		t.Fatalf("yaml: %v", err)
	}
	configuration.LoadConfig()
	return configuration.Validate(p)
}

func replayEvalAll(t *testing.T) (crash interface{}) {
	defer func() { crash = recover() }()
	for _, sc := range configuration.CurrentConfig.Sensors {
		s, err := sensors.NewSensor(sc)
		if err != nil {
			t.Fatal(err)
		}
		s.SetMovingAvg(50000)
		sensors.RegisterSensor(s)
	}
	var all []SpeedCurve
	for _, cc := range configuration.CurrentConfig.Curves {
		c, err := NewSpeedCurve(cc)
		if err != nil {
			t.Fatal(err)
		}
		RegisterSpeedCurve(c)
		all = append(all, c)
	}
	for _, c := range all {
		_, _ = c.Evaluate()
	}
	return nil
}

func TestReplayAcceptedConfigUnrunnable(t *testing.T) {
	fan := `
fans:
  - id: f1
    file:
      path: /tmp/replay_pwm
    curve: c1
`
	bad := map[string]string{
		"function curve (average) without members": replayHead + `
curves:
  - id: c1
    function:
      type: average
      curves: []
` + fan,
		"function curve (delta) without members": replayHead + `
curves:
  - id: c1
    function:
      type: delta
      curves: []
` + fan,
		"linear curve with empty steps": replayHead + `
curves:
  - id: c1
    linear:
      sensor: s1
      steps: {}
` + fan,
	}
	for name, doc := range bad {
		err := replayLoad(t, doc)
		if err == nil {
			crash := replayEvalAll(t)
			t.Errorf("VIOLATED C11: %s: accepted by the validator; evaluating it: %v", name, fmt.Sprint(crash))
		}
	}
	// controlAlgorithm without a variant: accepted => the controller would get a nil control loop
	err := replayLoad(t, replayHead+`
curves:
  - id: c1
    linear:
      sensor: s1
      min: 40
      max: 80
fans:
  - id: f1
    file:
      path: /tmp/replay_pwm
    curve: c1
    controlAlgorithm: {}
`)
	if err == nil {
		ca := configuration.CurrentConfig.Fans[0].ControlAlgorithm
		if ca != nil && ca.Direct == nil && ca.Pid == nil {
			t.Errorf("VIOLATED C11: controlAlgorithm without direct/pid accepted by the validator: no control loop can be built (nil control loop is dereferenced in the first cycle)")
		}
	}
	// documented forms stay accepted
	good := map[string]string{
		"linear min/max, controlAlgorithm: direct": replayHead + `
curves:
  - id: c1
    linear:
      sensor: s1
      min: 40
      max: 80
fans:
  - id: f1
    file:
      path: /tmp/replay_pwm
    curve: c1
    controlAlgorithm: direct
`,
		"steps, nested function, controlAlgorithm struct": replayHead + `
curves:
  - id: c1
    linear:
      sensor: s1
      steps:
        - 40: 0
        - 50: 50
        - 80: 255
  - id: c2
    function:
      type: maximum
      curves:
        - c1
fans:
  - id: f1
    file:
      path: /tmp/replay_pwm
    curve: c2
    controlAlgorithm:
      direct:
        maxPwmChangePerCycle: 10
  - id: f2
    file:
      path: /tmp/replay_pwm2
    curve: c1
    controlAlgorithm:
      pid:
        p: 0.3
        i: 0.02
        d: 0.005
`,
	}
	for name, doc := range good {
		if err := replayLoad(t, doc); err != nil {
			t.Errorf("VIOLATED C11 (converse): documented form rejected: %s: %v", name, err)
		} else if crash := replayEvalAll(t); crash != nil {
			t.Errorf("VIOLATED C11: documented form %s accepted but evaluating it panics: %v", name, crash)
		}
	}
}
