package internal

// Replay recipe (C03): a second SIGTERM arriving while the daemon is still restoring its fans must not
// abort it. The test re-executes itself as a child process that runs the real RunDaemon with one cmd fan
// (slow set command), one file sensor and one linear curve; the parent sends SIGTERM twice.
import (
	"bytes"
	"fmt"
	"os"
	"os/exec"
	"path/filepath"
	"strings"
	"syscall"
	"testing"
	"time"

	"github.com/markusressel/fan2go/internal/configuration"
)

func replayChild(dir string) {
	pm := map[int]int{}
	for i := 0; i <= 255; i++ {
		pm[i] = i
	}
	configuration.CurrentConfig = configuration.Configuration{
		DbPath:                         filepath.Join(dir, "fan2go.db"),
		RunFanInitializationInParallel: true,
		MaxRpmDiffForSettledFan:        20,
		FanResponseDelay:               0,
		TempSensorPollingRate:          50 * time.Millisecond,
		TempRollingWindowSize:          2,
		RpmPollingRate:                 200 * time.Millisecond,
		RpmRollingWindowSize:           2,
		ControllerAdjustmentTickRate:   100 * time.Millisecond,
		Sensors: []configuration.SensorConfig{{ID: "s", File: &configuration.FileSensorConfig{Path: filepath.Join(dir, "temp")}}},
		Curves:  []configuration.CurveConfig{{ID: "c", Linear: &configuration.LinearCurveConfig{Sensor: "s", Min: 40, Max: 80}}},
		Fans: []configuration.FanConfig{{ID: "f", Curve: "c", PwmMap: &pm,
			ControlAlgorithm: &configuration.ControlAlgorithmConfig{Direct: &configuration.DirectControlAlgorithmConfig{}},
			Cmd: &configuration.CmdFanConfig{
				SetPwm: &configuration.ExecConfig{Exec: filepath.Join(dir, "set.sh"), Args: []string{"%pwm%"}},
				GetPwm: &configuration.ExecConfig{Exec: filepath.Join(dir, "get.sh")}}}},
	}
	RunDaemon() // ends with os.Exit
}

func TestReplaySecondSignal(t *testing.T) {
	if d := os.Getenv("REPLAY_CHILD_DIR"); d != "" {
		replayChild(d)
		return
	}
	if os.Geteuid() != 0 {
		t.Skip("REPLAY skipped: needs root (cmd fans only run root-owned scripts)")
	}
	dir, err := os.MkdirTemp("", "replay-sig")
	if err != nil {
		t.Fatal(err)
	}
	defer os.RemoveAll(dir)
	_ = os.Chmod(dir, 0755)
	pwmFile := filepath.Join(dir, "pwm")
	must := func(e error) {
		if e != nil {
			t.Fatal(e)
		}
	}
	must(os.WriteFile(pwmFile, []byte("100\n"), 0644))
	must(os.WriteFile(filepath.Join(dir, "temp"), []byte("60000"), 0644))
	must(os.WriteFile(filepath.Join(dir, "set.sh"), []byte(fmt.Sprintf("#!/bin/sh\n[ -f %s/slow ] && sleep 0.6\necho $1 > %s\n", dir, pwmFile)), 0755))
	must(os.WriteFile(filepath.Join(dir, "get.sh"), []byte(fmt.Sprintf("#!/bin/sh\ncat %s\n", pwmFile)), 0755))

	cmd := exec.Command(os.Args[0], "-test.run=^TestReplaySecondSignal$")
	cmd.Env = append(os.Environ(), "REPLAY_CHILD_DIR="+dir)
	var out bytes.Buffer
	cmd.Stdout, cmd.Stderr = &out, &out
	must(cmd.Start())
	// start-up: 2 s + 2 polling periods gathering data, persistence, 1 s before the first control cycle
	time.Sleep(5 * time.Second)
	must(os.WriteFile(filepath.Join(dir, "slow"), nil, 0644)) // restoring the fan now takes > 1 s
	must(cmd.Process.Signal(syscall.SIGTERM))
	time.Sleep(400 * time.Millisecond)
	_ = cmd.Process.Signal(syscall.SIGTERM) // second signal while the fan is being restored
	done := make(chan error, 1)
	go func() { done <- cmd.Wait() }()
	var werr error
	select {
	case werr = <-done:
	case <-time.After(20 * time.Second):
		_ = cmd.Process.Kill()
		t.Fatalf("child did not exit\n%s", tail(out.String()))
	}
	b, _ := os.ReadFile(pwmFile)
	final := strings.TrimSpace(string(b))
	log := out.String()
	if strings.Contains(log, "send on closed channel") || werr != nil || final != "255" {
		t.Fatalf("VIOLATED C03: second SIGTERM during restore: exit=%v, fan left at PWM %s (want 255), panic=%v\n%s",
			werr, final, strings.Contains(log, "send on closed channel"), tail(log))
	}
}

func tail(s string) string {
	lines := strings.Split(s, "\n")
	if len(lines) > 12 {
		lines = lines[len(lines)-12:]
	}
	return strings.Join(lines, "\n")
}
