package internal

// Replay recipe (C17): a hwmon sensor entry whose platform matches a chip that has no temperature input with
// the configured index. Start-up must fail with an error naming the entry - not panic, not bind something else.
import (
	"strings"
	"testing"

	"github.com/markusressel/fan2go/internal/configuration"
	"github.com/markusressel/fan2go/internal/hwmon"
	"github.com/markusressel/fan2go/internal/sensors"
)

func TestReplaySensorIndexMissing(t *testing.T) {
	controllers := []*hwmon.HwMonController{
		{Name: "other", Platform: "nct6798-isa-0290", Sensors: map[int]*sensors.HwmonSensor{7: {Index: 7, Input: "/sys/other/temp7_input"}}},
		{Name: "k10temp", Platform: "k10temp-pci-00c3", Sensors: map[int]*sensors.HwmonSensor{1: {Index: 1, Input: "/sys/k10/temp1_input"}}},
	}
	run := func(index int) (err error, panicked interface{}, input string) {
		cfg := configuration.SensorConfig{ID: "cpu", HwMon: &configuration.HwMonSensorConfig{Platform: "k10temp", Index: index}}
		configuration.CurrentConfig.Sensors = []configuration.SensorConfig{cfg}
		defer func() { panicked = recover() }()
		err = initializeSensors(controllers)
		return err, nil, cfg.HwMon.TempInput
	}
	// existing index: bound to that chip's input
	err, p, input := run(1)
	if p != nil || err != nil || input != "/sys/k10/temp1_input" {
		t.Fatalf("VIOLATED C17: index 1 on k10temp: err=%v panic=%v input=%q", err, p, input)
	}
	// missing index 7 (exists only on the other chip)
	err, p, input = run(7)
	if p != nil {
		t.Fatalf("VIOLATED C17: start-up crashed for a sensor entry with a missing index: %v", p)
	}
	if err == nil {
		t.Fatalf("VIOLATED C17: missing index was silently bound to %q", input)
	}
	if !strings.Contains(err.Error(), "cpu") {
		t.Fatalf("VIOLATED C17: error does not name the entry: %v", err)
	}
}
