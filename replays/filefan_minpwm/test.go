package controller

// Replay recipe: a file fan (and a cmd fan) configured with neverStop and minPwm 50 is driven to 0.
import (
	"os"
	"path/filepath"
	"testing"

	"github.com/markusressel/fan2go/internal/configuration"
	"github.com/markusressel/fan2go/internal/control_loop"
	"github.com/markusressel/fan2go/internal/fans"
)

type replayZeroCurve struct{}

func (c *replayZeroCurve) GetId() string          { return "replay-zero" }
func (c *replayZeroCurve) Evaluate() (int, error) { return 0, nil }
func (c *replayZeroCurve) CurrentValue() int      { return 0 }

func TestReplayFileFanMinPwm(t *testing.T) {
	dir := t.TempDir()
	pwm := filepath.Join(dir, "pwm")
	if err := os.WriteFile(pwm, []byte("100"), 0644); err != nil {
		t.Fatal(err)
	}
	minPwm := 50
	for _, cfg := range []configuration.FanConfig{
		{ID: "file", NeverStop: true, MinPwm: &minPwm, File: &configuration.FileFanConfig{Path: pwm}},
		{ID: "cmd", NeverStop: true, MinPwm: &minPwm, Cmd: &configuration.CmdFanConfig{SetPwm: &configuration.ExecConfig{Exec: "/bin/true"}, GetPwm: &configuration.ExecConfig{Exec: "/bin/echo", Args: []string{"100"}}}},
	} {
		fan, err := fans.NewFan(cfg)
		if err != nil {
			t.Fatal(err)
		}
		pm := map[int]int{}
		for i := 0; i <= 255; i++ {
			pm[i] = i
		}
		f := &DefaultFanController{fan: fan, curve: &replayZeroCurve{}, controlLoop: control_loop.NewDirectControlLoop(nil), pwmMap: pm}
		f.updateDistinctPwmValues()
		target, err := f.calculateTargetPwm()
		if err != nil {
			t.Fatal(err)
		}
		if fan.GetMinPwm() != minPwm || target < minPwm {
			t.Errorf("VIOLATED C02: %s fan with neverStop and configured minPwm %d: GetMinPwm()=%d, requested %d", cfg.ID, minPwm, fan.GetMinPwm(), target)
		}
	}
}
