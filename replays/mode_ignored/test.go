package controller

// Replay recipe (C03): the fan was in automatic mode (2) at PWM 80 when fan2go started. On stop the
// driver silently ignores the write that switches the mode back. fan2go must then leave the fan at
// full speed (255), not in manual mode at a reduced speed.
import (
	"os"
	"path/filepath"
	"strings"
	"testing"

	"github.com/markusressel/fan2go/internal/configuration"
	"github.com/markusressel/fan2go/internal/fans"
)

func TestReplayModeIgnored(t *testing.T) {
	dir := t.TempDir()
	w := func(name, v string) string {
		p := filepath.Join(dir, name)
		if err := os.WriteFile(p, []byte(v), 0644); err != nil {
			t.Fatal(err)
		}
		return p
	}
	pwm, enable := w("pwm1", "80"), w("pwm1_enable", "1") // manual mode, as left by regulation
	cfg := configuration.FanConfig{ID: "f", HwMon: &configuration.HwMonFanConfig{PwmPath: pwm, PwmEnablePath: enable, RpmInputPath: w("fan1_input", "900")}}
	fan, _ := fans.NewFan(cfg)
	f := &DefaultFanController{fan: fan, originalPwmEnabled: fans.ControlModeAutomatic, originalPwmValue: 80}
	f.restorePwmEnabled()
	rd := func(p string) string { b, _ := os.ReadFile(p); return strings.TrimSpace(string(b)) }
	mode, val := rd(enable), rd(pwm)
	if mode != "2" && val != "255" {
		t.Fatalf("VIOLATED C03: after restore the fan is in mode %s (original 2) at PWM %s: manual mode at reduced speed", mode, val)
	}
}
