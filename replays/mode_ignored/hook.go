package util

import (
	"os"
	"strings"
)

// replayWriteFile emulates a driver that accepts writes to pwmN_enable but silently ignores them
// (a regular file cannot do that). Used only through `go test -overlay` by the replay recipe.
func replayWriteFile(name string, data []byte, perm os.FileMode) error {
	if strings.HasSuffix(name, "_enable") {
		return nil
	}
	return os.WriteFile(name, data, perm)
}
