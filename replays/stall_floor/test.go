package controller

// Replay recipe (run through `go test -overlay`, never written into /repo):
// a neverStop hwmon fan whose RPM stays 0. Observes C02 (floor never drops) and C01 (request <= max).
import (
	"os"
	"path/filepath"
	"testing"

	"github.com/markusressel/fan2go/internal/configuration"
	"github.com/markusressel/fan2go/internal/control_loop"
	"github.com/markusressel/fan2go/internal/curves"
	"github.com/markusressel/fan2go/internal/fans"
)

type replayConstCurve struct{ v int }

func (c *replayConstCurve) GetId() string            { return "replay-curve" }
func (c *replayConstCurve) Evaluate() (int, error)   { return c.v, nil }
func (c *replayConstCurve) CurrentValue() int        { return c.v }

var _ curves.SpeedCurve = &replayConstCurve{}

func TestReplayStallFloor(t *testing.T) {
	dir := t.TempDir()
	w := func(name, v string) {
		if err := os.WriteFile(filepath.Join(dir, name), []byte(v), 0644); err != nil {
			t.Fatal(err)
		}
	}
	w("pwm1", "0")
	w("pwm1_enable", "1")
	w("fan1_input", "0")
	minPwm, maxPwm := 50, 101
	cfg := configuration.FanConfig{ID: "f", NeverStop: true, MinPwm: &minPwm, MaxPwm: &maxPwm,
		HwMon: &configuration.HwMonFanConfig{PwmPath: filepath.Join(dir, "pwm1"), PwmEnablePath: filepath.Join(dir, "pwm1_enable"), RpmInputPath: filepath.Join(dir, "fan1_input")}}
	fan, err := fans.NewFan(cfg)
	if err != nil {
		t.Fatal(err)
	}
	pm := map[int]int{}
	for i := 0; i <= 255; i++ {
		pm[i] = i
	}
	f := &DefaultFanController{fan: fan, curve: &replayConstCurve{0}, controlLoop: control_loop.NewDirectControlLoop(nil), pwmMap: pm}
	f.updateDistinctPwmValues()
	floor := fan.GetMinPwm() + f.minPwmOffset
	for cycle := 0; cycle < 200; cycle++ {
		fan.SetRpmAvg(0) // the fan never turns
		target, err := f.calculateTargetPwm()
		newFloor := fan.GetMinPwm() + f.minPwmOffset
		if newFloor < floor {
			t.Fatalf("VIOLATED C02: cycle %d: effective floor dropped from %d to %d (fan min now %d, offset %d)", cycle, floor, newFloor, fan.GetMinPwm(), f.minPwmOffset)
		}
		floor = newFloor
		if err != nil {
			return // stalled at max: regulation stops
		}
		if target < minPwm || target > maxPwm {
			t.Fatalf("VIOLATED C01/C02: cycle %d: requested %d outside [%d,%d]", cycle, target, minPwm, maxPwm)
		}
		if err := f.setPwm(target); err != nil {
			t.Fatal(err)
		}
	}
}
