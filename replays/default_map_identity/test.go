package controller

// Replay recipe (C02 / C01 / C12): the default PWM map of a fan whose PWM cannot be read back. The map is one closed
// expression (util.InterpolateLinearlyInt over {0:0, 255:255}), evaluated here exhaustively through the real
// computePwmMapAutomatically: all 256 keys, each mapped onto itself. Exhaustive for this one input, not a proof
// obligation (InterpolateLinearlyInt is opaque to the contracts).
import (
	"testing"

	"github.com/markusressel/fan2go/internal/configuration"
	"github.com/markusressel/fan2go/internal/control_loop"
	"github.com/markusressel/fan2go/internal/fans"
)

func TestReplayDefaultMapIdentity(t *testing.T) {
	cfg := configuration.FanConfig{ID: "replay-default-map", NeverStop: true,
		Cmd: &configuration.CmdFanConfig{SetPwm: &configuration.ExecConfig{Exec: "/bin/true"}}} // no getPwm: PWM cannot be read back
	fan, err := fans.NewFan(cfg)
	if err != nil {
		t.Fatal(err)
	}
	if fan.Supports(fans.FeaturePwmSensor) {
		t.Skip("fan unexpectedly supports PWM read-back")
	}
	f := &DefaultFanController{fan: fan, controlLoop: control_loop.NewDirectControlLoop(nil)}
	f.computePwmMapAutomatically()
	if len(f.pwmMap) != 256 {
		t.Fatalf("VIOLATED C02: default PWM map has %d entries, want 256", len(f.pwmMap))
	}
	for k := 0; k <= 255; k++ {
		v, ok := f.pwmMap[k]
		if !ok || v != k {
			t.Fatalf("VIOLATED C02: default PWM map of a fan without PWM read-back maps %d to %d (present=%v): the fan would be driven with a value other than the request", k, v, ok)
		}
	}
}
