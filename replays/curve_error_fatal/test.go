package controller

// Replay recipe (C09): a sensor read error that reaches the fan's curve (PID curve on a hwmon sensor
// whose input file vanished) must not crash the control cycle.
import (
	"os"
	"path/filepath"
	"testing"

	"github.com/markusressel/fan2go/internal/configuration"
	"github.com/markusressel/fan2go/internal/control_loop"
	"github.com/markusressel/fan2go/internal/curves"
	"github.com/markusressel/fan2go/internal/fans"
	"github.com/markusressel/fan2go/internal/sensors"
)

func TestReplayCurveErrorFatal(t *testing.T) {
	dir := t.TempDir()
	w := func(name, v string) string {
		p := filepath.Join(dir, name)
		if err := os.WriteFile(p, []byte(v), 0644); err != nil {
			t.Fatal(err)
		}
		return p
	}
	tempInput := w("temp1_input", "60000")
	s, _ := sensors.NewSensor(configuration.SensorConfig{ID: "replay-c09-sensor", HwMon: &configuration.HwMonSensorConfig{Index: 1, TempInput: tempInput}})
	sensors.RegisterSensor(s)
	c, _ := curves.NewSpeedCurve(configuration.CurveConfig{ID: "replay-c09-curve", PID: &configuration.PidCurveConfig{Sensor: s.GetId(), SetPoint: 50, P: -0.05, I: -0.005, D: -0.005}})
	curves.RegisterSpeedCurve(c)
	cfg := configuration.FanConfig{ID: "f", Curve: c.GetId(),
		HwMon: &configuration.HwMonFanConfig{PwmPath: w("pwm1", "100"), PwmEnablePath: w("pwm1_enable", "1"), RpmInputPath: w("fan1_input", "1000")}}
	fan, _ := fans.NewFan(cfg)
	pm := map[int]int{}
	for i := 0; i <= 255; i++ {
		pm[i] = i
	}
	f := &DefaultFanController{fan: fan, curve: c, controlLoop: control_loop.NewDirectControlLoop(nil), pwmMap: pm}
	f.updateDistinctPwmValues()
	if err := f.UpdateFanSpeed(); err != nil {
		t.Fatalf("first cycle: %v", err)
	}
	_ = os.Remove(tempInput) // the sensor disappears
	defer func() {
		if r := recover(); r != nil {
			t.Fatalf("VIOLATED C09: UpdateFanSpeed panicked after a sensor read error: %v", r)
		}
	}()
	err := f.UpdateFanSpeed()
	t.Logf("second cycle returned: %v", err)
}
