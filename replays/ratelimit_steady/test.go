package controller

// Replay recipe (C04): constant curve value; the direct algorithm must settle at the same request with and
// without maxPwmChangePerCycle.
import (
	"os"
	"path/filepath"
	"testing"

	"github.com/markusressel/fan2go/internal/configuration"
	"github.com/markusressel/fan2go/internal/control_loop"
	"github.com/markusressel/fan2go/internal/curves"
	"github.com/markusressel/fan2go/internal/fans"
)

type replayFixedCurve struct{ v int }

func (c *replayFixedCurve) GetId() string          { return "fixed" }
func (c *replayFixedCurve) Evaluate() (int, error) { return c.v, nil }
func (c *replayFixedCurve) CurrentValue() int      { return c.v }

var _ curves.SpeedCurve = &replayFixedCurve{}

func replaySettle(t *testing.T, loop control_loop.ControlLoop, curve int, maxPwm int) int {
	dir := t.TempDir()
	for n, v := range map[string]string{"pwm1": "0", "pwm1_enable": "1", "fan1_input": "1000"} {
		if err := os.WriteFile(filepath.Join(dir, n), []byte(v), 0644); err != nil {
			t.Fatal(err)
		}
	}
	minPwm := 0
	fan, err := fans.NewFan(configuration.FanConfig{ID: "f", MinPwm: &minPwm, MaxPwm: &maxPwm,
		HwMon: &configuration.HwMonFanConfig{PwmPath: filepath.Join(dir, "pwm1"), PwmEnablePath: filepath.Join(dir, "pwm1_enable"), RpmInputPath: filepath.Join(dir, "fan1_input")}})
	if err != nil {
		t.Fatal(err)
	}
	pm := map[int]int{}
	for i := 0; i <= 255; i++ {
		pm[i] = i
	}
	f := &DefaultFanController{fan: fan, curve: &replayFixedCurve{curve}, controlLoop: loop, pwmMap: pm}
	f.updateDistinctPwmValues()
	last := -1
	for cycle := 0; cycle < 600; cycle++ {
		fan.SetRpmAvg(1000)
		if err := f.UpdateFanSpeed(); err != nil {
			t.Fatal(err)
		}
		last = *f.lastSetPwm
	}
	return last
}

func TestReplayRateLimitSteady(t *testing.T) {
	limit := 10
	for _, tc := range []struct{ curve, maxPwm int }{{255, 255}, {255, 128}, {128, 128}, {200, 100}} {
		plain := replaySettle(t, control_loop.NewDirectControlLoop(nil), tc.curve, tc.maxPwm)
		limited := replaySettle(t, control_loop.NewDirectControlLoop(&limit), tc.curve, tc.maxPwm)
		if plain != limited {
			t.Errorf("VIOLATED C04: curve %d, fan range 0..%d: direct settles at %d, direct with maxPwmChangePerCycle=%d settles at %d after 600 cycles", tc.curve, tc.maxPwm, plain, limit, limited)
		}
	}
}
