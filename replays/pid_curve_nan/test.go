package curves

// Replay recipe (C06): a PID curve with finite (extreme) gains must still evaluate to 0..255.
import (
	"testing"
	"time"

	"github.com/markusressel/fan2go/internal/configuration"
	"github.com/markusressel/fan2go/internal/sensors"
)

func TestReplayPidCurveNaN(t *testing.T) {
	s := &sensors.VirtualSensor{Name: "replay-pid-sensor", Value: 60000}
	sensors.RegisterSensor(s)
	c, err := NewSpeedCurve(configuration.CurveConfig{ID: "replay-pid", PID: &configuration.PidCurveConfig{Sensor: s.GetId(), SetPoint: 60, P: 1e308, I: 0, D: -1e308}})
	if err != nil {
		t.Fatal(err)
	}
	if _, err := c.Evaluate(); err != nil {
		t.Fatal(err)
	}
	time.Sleep(20 * time.Millisecond)
	s.Value = 50000
	v, err := c.Evaluate()
	if err != nil {
		return // clean failure of this evaluation: the controller keeps the previous request
	}
	if v < 0 || v > 255 {
		t.Fatalf("VIOLATED C06: PID curve with finite gains p=1e308 d=-1e308 evaluated to %d (outside 0..255)", v)
	}
}
