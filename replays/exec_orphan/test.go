package util

// Replay recipe: the command exits at once but leaves a child holding its stdout; SafeCmdExecution
// must still return within timeout + margin (C19).
import (
	"os"
	"path/filepath"
	"testing"
	"time"
)

func TestReplayExecOrphan(t *testing.T) {
	if os.Geteuid() != 0 {
		t.Skip("REPLAY skipped: needs root to create a root-owned script")
	}
	dir := t.TempDir()
	if err := os.Chmod(dir, 0755); err != nil {
		t.Fatal(err)
	}
	script := filepath.Join(dir, "orphan.sh")
	if err := os.WriteFile(script, []byte("#!/bin/sh\nsleep 4 &\necho 42\nexit 0\n"), 0755); err != nil {
		t.Fatal(err)
	}
	timeout := 500 * time.Millisecond
	t0 := time.Now()
	_, _ = SafeCmdExecution(script, nil, timeout)
	el := time.Since(t0)
	if el > timeout+1500*time.Millisecond {
		t.Fatalf("VIOLATED C19: SafeCmdExecution with timeout %v returned after %v (a grandchild kept stdout open)", timeout, el)
	}
}
