package controller

// Replay recipe (C02 / C01): a neverStop hwmon fan with a configured minPwm above the PWM at which the measured
// curve reaches its highest RPM gets an inverted range (min 100 > max 60); the request must still not fall
// below the configured minimum.
import (
	"os"
	"path/filepath"
	"testing"

	"github.com/markusressel/fan2go/internal/configuration"
	"github.com/markusressel/fan2go/internal/control_loop"
	"github.com/markusressel/fan2go/internal/fans"
)

type replayInvCurve struct{ v int }

func (c *replayInvCurve) GetId() string          { return "replay-inv" }
func (c *replayInvCurve) Evaluate() (int, error) { return c.v, nil }
func (c *replayInvCurve) CurrentValue() int      { return c.v }

func TestReplayLimitsInverted(t *testing.T) {
	dir, err := os.MkdirTemp("", "replay-inv")
	if err != nil {
		t.Fatal(err)
	}
	defer os.RemoveAll(dir)
	for name, v := range map[string]string{"pwm1": "100", "pwm1_enable": "1", "fan1_input": "1500"} {
		if err := os.WriteFile(filepath.Join(dir, name), []byte(v), 0644); err != nil {
			t.Fatal(err)
		}
	}
	minPwm := 100
	cfg := configuration.FanConfig{ID: "f", NeverStop: true, MinPwm: &minPwm,
		HwMon: &configuration.HwMonFanConfig{PwmPath: filepath.Join(dir, "pwm1"), PwmEnablePath: filepath.Join(dir, "pwm1_enable"), RpmInputPath: filepath.Join(dir, "fan1_input")}}
	fan, _ := fans.NewFan(cfg)
	data := map[int]float64{0: 0, 30: 1000, 60: 3000, 100: 2990, 255: 2990} // highest RPM already at PWM 60
	if err := fan.AttachFanRpmCurveData(&data); err != nil {
		t.Fatal(err)
	}
	pm := map[int]int{}
	for i := 0; i <= 255; i++ {
		pm[i] = i
	}
	f := &DefaultFanController{fan: fan, curve: &replayInvCurve{255}, controlLoop: control_loop.NewDirectControlLoop(nil), pwmMap: pm}
	f.updateDistinctPwmValues()
	target, err := f.calculateTargetPwm()
	if err != nil {
		t.Fatal(err)
	}
	if target < fan.GetMinPwm() {
		t.Fatalf("VIOLATED C02: neverStop fan with configured minPwm %d (measured maxPwm %d) is asked for PWM %d at curve value 255", fan.GetMinPwm(), fan.GetMaxPwm(), target)
	}
}
