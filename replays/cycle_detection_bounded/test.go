package configuration

// Bounded stand-in (C11, acyclicity): validateCurves decides cycles with the tarjan library, whose contract is
// not within reach of the contract verifier. Bound: all graphs on 1..4 nodes, 3000 random graphs on 5..8 nodes.
import (
	"fmt"
	"math/rand"
	"testing"
)

func replayGraphConfig(n int, edge func(i, j int) bool) (*Configuration, [][]int) {
	cfg := &Configuration{Sensors: []SensorConfig{{ID: "s", File: &FileSensorConfig{Path: "/x"}}}}
	adj := make([][]int, n)
	for i := 0; i < n; i++ {
		var members []string
		for j := 0; j < n; j++ {
			if i != j && edge(i, j) {
				members = append(members, fmt.Sprintf("c%d", j))
				adj[i] = append(adj[i], j)
			}
		}
		cc := CurveConfig{ID: fmt.Sprintf("c%d", i)}
		if len(members) == 0 {
			cc.Linear = &LinearCurveConfig{Sensor: "s", Min: 1, Max: 2}
		} else {
			cc.Function = &FunctionCurveConfig{Type: FunctionMaximum, Curves: members}
		}
		cfg.Curves = append(cfg.Curves, cc)
	}
	return cfg, adj
}

func replayAcyclic(adj [][]int) bool {
	state := make([]int, len(adj))
	var visit func(u int) bool
	visit = func(u int) bool {
		state[u] = 1
		for _, v := range adj[u] {
			if state[v] == 1 || (state[v] == 0 && !visit(v)) {
				return false
			}
		}
		state[u] = 2
		return true
	}
	for u := range adj {
		if state[u] == 0 && !visit(u) {
			return false
		}
	}
	return true
}

func TestReplayCycleDetectionBounded(t *testing.T) {
	check := func(n int, edge func(i, j int) bool, what string) {
		cfg, adj := replayGraphConfig(n, edge)
		err := validateCurves(cfg)
		if (err == nil) != replayAcyclic(adj) {
			t.Fatalf("VIOLATED C11: %s: adjacency %v: validator says %v, acyclic=%v", what, adj, err, replayAcyclic(adj))
		}
	}
	for n := 1; n <= 4; n++ {
		pairs := n * (n - 1)
		for mask := 0; mask < 1<<uint(pairs); mask++ {
			m := mask
			check(n, func(i, j int) bool {
				k := i*(n-1) + j
				if j > i {
					k--
				}
				return m>>uint(k)&1 == 1
			}, fmt.Sprintf("n=%d mask=%d", n, mask))
		}
	}
	rng := rand.New(rand.NewSource(11))
	for r := 0; r < 3000; r++ {
		n := 5 + rng.Intn(4)
		p := rng.Float64() * 0.4
		bits := map[[2]int]bool{}
		for i := 0; i < n; i++ {
			for j := 0; j < n; j++ {
				bits[[2]int{i, j}] = rng.Float64() < p
			}
		}
		check(n, func(i, j int) bool { return bits[[2]int{i, j}] }, fmt.Sprintf("random %d", r))
	}
}
