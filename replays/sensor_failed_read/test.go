package internal

// Replay recipe (C08): a poll whose read fails, or yields a non-finite number, must leave the
// smoothed value unchanged.
import (
	"math"
	"os"
	"path/filepath"
	"testing"

	"github.com/markusressel/fan2go/internal/configuration"
	"github.com/markusressel/fan2go/internal/sensors"
)

func TestReplaySensorFailedRead(t *testing.T) {
	configuration.CurrentConfig.TempRollingWindowSize = 10
	dir := t.TempDir()
	_ = os.Chmod(dir, 0755)
	// file sensor whose file vanishes
	f := filepath.Join(dir, "temp")
	if err := os.WriteFile(f, []byte("50000"), 0644); err != nil {
		t.Fatal(err)
	}
	fs, _ := sensors.NewSensor(configuration.SensorConfig{ID: "file", File: &configuration.FileSensorConfig{Path: f}})
	fs.SetMovingAvg(50000)
	_ = updateSensor(fs)
	if fs.GetMovingAvg() != 50000 {
		t.Fatalf("setup: %v", fs.GetMovingAvg())
	}
	_ = os.Remove(f)
	err := updateSensor(fs)
	if fs.GetMovingAvg() != 50000 {
		t.Errorf("VIOLATED C08: file sensor: read failed (err=%v) but the average moved 50000 -> %v", err, fs.GetMovingAvg())
	}
	// cmd sensor printing nan
	if os.Geteuid() == 0 {
		script := filepath.Join(dir, "nan.sh")
		if err := os.WriteFile(script, []byte("#!/bin/sh\necho nan\n"), 0755); err != nil {
			t.Fatal(err)
		}
		cs, _ := sensors.NewSensor(configuration.SensorConfig{ID: "cmd", Cmd: &configuration.CmdSensorConfig{Exec: script}})
		cs.SetMovingAvg(40000)
		err := updateSensor(cs)
		if math.IsNaN(cs.GetMovingAvg()) || cs.GetMovingAvg() != 40000 {
			t.Errorf("VIOLATED C08: cmd sensor printed 'nan' (err=%v): average 40000 -> %v", err, cs.GetMovingAvg())
		}
	}
}
