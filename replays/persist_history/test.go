package persistence

// Assumption probe (C14): the proof of C14 rests on assumed contracts of bbolt (transactions, buckets)
// and encoding/json (decode(encode(m)) == m). This bounded test runs random histories on the real code
// with a real database file and compares every result with an in-memory model. It is labelled bounded.
import (
	"errors"
	"math/rand"
	"os"
	"path/filepath"
	"reflect"
	"testing"

	"github.com/markusressel/fan2go/internal/configuration"
	"github.com/markusressel/fan2go/internal/fans"
	bolt "go.etcd.io/bbolt"
)

func TestReplayPersistHistory(t *testing.T) {
	rng := rand.New(rand.NewSource(20261002))
	for round := 0; round < 400; round++ {
		dir := t.TempDir()
		p := NewPersistence(filepath.Join(dir, "x.db")).(*persistence)
		ids := []string{"a", "b", "a b/ü"}
		fs := map[string]fans.Fan{}
		for _, id := range ids {
			d := map[int]float64{}
			fs[id] = &fans.HwMonFan{Config: configuration.FanConfig{ID: id, HwMon: &configuration.HwMonFanConfig{}}, FanCurveData: &d}
		}
		curve := map[string]map[int]float64{}
		pmap := map[string]map[int]int{}
		for step := 0; step < 25; step++ {
			id := ids[rng.Intn(len(ids))]
			switch rng.Intn(8) {
			case 0: // save curve
				d := map[int]float64{}
				for i, n := 0, rng.Intn(6); i < n; i++ {
					d[rng.Intn(600)-300] = (rng.Float64() - 0.5) * float64(int64(1)<<uint(rng.Intn(50)))
				}
				*fs[id].GetFanRpmCurveData() = d
				if err := p.SaveFanPwmData(fs[id]); err != nil {
					t.Fatalf("VIOLATED C14: save curve: %v", err)
				}
				c := map[int]float64{}
				for k, v := range d {
					c[k] = v
				}
				curve[id] = c
			case 1: // save map
				m := map[int]int{}
				for i, n := 0, rng.Intn(6); i < n; i++ {
					m[rng.Intn(600)-300] = rng.Intn(100000) - 500
				}
				if err := p.SaveFanPwmMap(id, m); err != nil {
					t.Fatalf("VIOLATED C14: save map: %v", err)
				}
				c := map[int]int{}
				for k, v := range m {
					c[k] = v
				}
				pmap[id] = c
			case 2:
				if err := p.DeleteFanPwmData(fs[id]); err != nil {
					t.Fatalf("VIOLATED C14: delete curve: %v", err)
				}
				delete(curve, id)
			case 3:
				if err := p.DeleteFanPwmMap(id); err != nil {
					t.Fatalf("VIOLATED C14: delete map: %v", err)
				}
				delete(pmap, id)
			case 4: // corrupt one entry behind the code's back
				bucket := BucketFans
				if rng.Intn(2) == 0 {
					bucket = BucketFanPwmMap
				}
				db, err := bolt.Open(p.dbPath, 0600, nil)
				if err != nil {
					t.Fatal(err)
				}
				_ = db.Update(func(tx *bolt.Tx) error {
					b, err := tx.CreateBucketIfNotExists([]byte(bucket))
					if err != nil {
						return err
					}
					return b.Put([]byte(id), []byte("{\"1\": garbage"))
				})
				_ = db.Close()
				// the first load discards the entry (nil, nil) ...
				if bucket == BucketFans {
					if d, err := p.LoadFanPwmData(fs[id]); err != nil || len(d) != 0 {
						t.Fatalf("VIOLATED C14: load of corrupt curve entry: %v %v", d, err)
					}
					delete(curve, id)
				} else {
					if d, err := p.LoadFanPwmMap(id); err != nil || len(d) != 0 {
						t.Fatalf("VIOLATED C14: load of corrupt map entry: %v %v", d, err)
					}
					delete(pmap, id)
				}
			default: // load everything and compare
			}
			for _, i := range ids {
				d, err := p.LoadFanPwmData(fs[i])
				if want, ok := curve[i]; ok {
					if err != nil || !reflect.DeepEqual(d, want) {
						t.Fatalf("VIOLATED C14: round %d step %d: curve of %q = %v, %v; want %v", round, step, i, d, err, want)
					}
				} else if !errors.Is(err, os.ErrNotExist) {
					t.Fatalf("VIOLATED C14: round %d step %d: curve of %q should be missing, got %v, %v", round, step, i, d, err)
				}
				m, err := p.LoadFanPwmMap(i)
				if want, ok := pmap[i]; ok {
					if err != nil || !reflect.DeepEqual(m, want) {
						t.Fatalf("VIOLATED C14: round %d step %d: map of %q = %v, %v; want %v", round, step, i, m, err, want)
					}
				} else if !errors.Is(err, os.ErrNotExist) {
					t.Fatalf("VIOLATED C14: round %d step %d: map of %q should be missing, got %v, %v", round, step, i, m, err)
				}
			}
		}
	}
}
