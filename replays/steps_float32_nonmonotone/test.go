package curves

// Replay recipe (C07): a step curve with non-decreasing speeds; the value must not drop when the temperature rises.
import (
	"testing"

	"github.com/markusressel/fan2go/internal/configuration"
	"github.com/markusressel/fan2go/internal/sensors"
)

type replayAvgSensor struct{ avg float64 }

func (s *replayAvgSensor) GetId() string                          { return "replay-steps" }
func (s *replayAvgSensor) GetLabel() string                       { return "replay-steps" }
func (s *replayAvgSensor) GetConfig() configuration.SensorConfig  { return configuration.SensorConfig{ID: "replay-steps"} }
func (s *replayAvgSensor) GetValue() (float64, error)             { return s.avg, nil }
func (s *replayAvgSensor) GetMovingAvg() float64                  { return s.avg }
func (s *replayAvgSensor) SetMovingAvg(v float64)                 { s.avg = v }

func TestReplayStepsFloat32NonMonotone(t *testing.T) {
	s := &replayAvgSensor{}
	sensors.RegisterSensor(s)
	c, err := NewSpeedCurve(configuration.CurveConfig{ID: "steps", Linear: &configuration.LinearCurveConfig{Sensor: "replay-steps",
		Steps: map[int]float64{40: 0, 50: 100.49999999, 60: 200}}})
	if err != nil {
		t.Fatal(err)
	}
	eval := func(milli float64) int {
		s.avg = milli
		v, err := c.Evaluate()
		if err != nil {
			t.Fatal(err)
		}
		return v
	}
	prevT, prevV := 39000.0, eval(39000)
	for _, milli := range []float64{45000, 49000, 49999, 49999.99, 49999.9999, 50000, 50000.0001, 50001, 55000, 60000, 61000} {
		v := eval(milli)
		if v < prevV {
			t.Fatalf("VIOLATED C07: steps {40:0, 50:100.49999999, 60:200}: %.4f m-degree -> %d but the hotter %.4f m-degree -> %d", prevT, prevV, milli, v)
		}
		prevT, prevV = milli, v
	}
}
