package fans

// Replay recipe (C13): attaching a second, different RPM curve to the same fan must re-derive the
// measured start PWM (lowest PWM with non-zero RPM) when none is configured.
import (
	"testing"

	"github.com/markusressel/fan2go/internal/configuration"
)

func TestReplayAttachTwice(t *testing.T) {
	fan, _ := NewFan(configuration.FanConfig{ID: "f", HwMon: &configuration.HwMonFanConfig{PwmPath: "p", PwmEnablePath: "e"}})
	d1 := map[int]float64{0: 0, 30: 100, 255: 1000}
	if err := fan.AttachFanRpmCurveData(&d1); err != nil {
		t.Fatal(err)
	}
	if fan.GetStartPwm() != 30 {
		t.Fatalf("first attachment: start %d", fan.GetStartPwm())
	}
	d2 := map[int]float64{0: 0, 30: 0, 60: 100, 200: 1000, 255: 1000}
	if err := fan.AttachFanRpmCurveData(&d2); err != nil {
		t.Fatal(err)
	}
	if fan.GetStartPwm() != 60 {
		t.Fatalf("VIOLATED C13: second attachment: lowest PWM with non-zero RPM is 60, fan keeps start PWM %d (max %d)", fan.GetStartPwm(), fan.GetMaxPwm())
	}
}
