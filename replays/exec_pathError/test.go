package util

// Replay recipe: a root-owned file that is not an executable makes exec fail with *fs.PathError;
// SafeCmdExecution must return an error, not panic (C19).
import (
	"os"
	"path/filepath"
	"testing"
	"time"
)

func TestReplayExecPathError(t *testing.T) {
	if os.Geteuid() != 0 {
		t.Skip("REPLAY skipped: needs root to create a root-owned file")
	}
	dir := t.TempDir()
	if err := os.Chmod(dir, 0755); err != nil {
		t.Fatal(err)
	}
	f := filepath.Join(dir, "not-executable.txt")
	if err := os.WriteFile(f, []byte("just text\n"), 0644); err != nil {
		t.Fatal(err)
	}
	defer func() {
		if r := recover(); r != nil {
			t.Fatalf("VIOLATED C19: SafeCmdExecution panicked: %v", r)
		}
	}()
	out, err := SafeCmdExecution(f, nil, 2*time.Second)
	if err == nil {
		t.Fatalf("VIOLATED C19: no error for a file that cannot be executed (out=%q)", out)
	}
}
