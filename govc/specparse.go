package main

import (
	"fmt"
	"strings"
	"unicode"
)

// ---------------------------------------------------------------------------------------------
// Spec expression language (Go expressions extended with ==>, <==>, forall/exists, old, in, is,
// ternary ?:, map/array update m[k := v], chained comparisons).
// ---------------------------------------------------------------------------------------------

type SExpr struct {
	Op   string   // "ident","num","str","call","sel","index","update","un","bin","chain","quant","tern","old","cast","is","typeexpr"
	Name string   // ident name / operator / field / quantifier kind
	Args []*SExpr // operands
	Vars []QVar   // quantifier variables
	Ty   string   // type text for cast/is/quant
	Ops  []string // chain operators
	Pos  int
	Src  string
}

type QVar struct {
	Name string
	Ty   string
}

type tok struct {
	k   string // "id","num","str","op","eof"
	s   string
	pos int
}

func lexSpec(src string) ([]tok, error) {
	var out []tok
	i := 0
	ops := []string{"<==>", "==>", "::", ":=", "==", "!=", "<=", ">=", "&&", "||", "<<", ">>", "&^"}
	for i < len(src) {
		c := rune(src[i])
		switch {
		case unicode.IsSpace(c):
			i++
		case unicode.IsLetter(c) || c == '_':
			j := i
			for j < len(src) && (unicode.IsLetter(rune(src[j])) || unicode.IsDigit(rune(src[j])) || src[j] == '_' || src[j] == '#' || src[j] == '$') {
				j++
			}
			out = append(out, tok{"id", src[i:j], i})
			i = j
		case unicode.IsDigit(c):
			j := i
			for j < len(src) && (unicode.IsDigit(rune(src[j])) || src[j] == '.' || src[j] == 'e' || src[j] == 'x' || src[j] == 'o' || src[j] == '_' ||
				(src[j] >= 'a' && src[j] <= 'f') || (src[j] >= 'A' && src[j] <= 'F') ||
				((src[j] == '-' || src[j] == '+') && (src[j-1] == 'e') && !strings.HasPrefix(src[i:j], "0x"))) {
				j++
			}
			out = append(out, tok{"num", src[i:j], i})
			i = j
		case c == '"':
			j := i + 1
			for j < len(src) && src[j] != '"' {
				if src[j] == '\\' {
					j++
				}
				j++
			}
			if j >= len(src) {
				return nil, fmt.Errorf("unterminated string at %d", i)
			}
			out = append(out, tok{"str", src[i+1 : j], i})
			i = j + 1
		default:
			matched := false
			for _, o := range ops {
				if strings.HasPrefix(src[i:], o) {
					out = append(out, tok{"op", o, i})
					i += len(o)
					matched = true
					break
				}
			}
			if !matched {
				out = append(out, tok{"op", string(c), i})
				i++
			}
		}
	}
	out = append(out, tok{"eof", "", len(src)})
	return out, nil
}

type sparser struct {
	toks []tok
	p    int
	src  string
}

func parseSpecExpr(src string) (e *SExpr, err error) {
	toks, err := lexSpec(src)
	if err != nil {
		return nil, err
	}
	ps := &sparser{toks: toks, src: src}
	defer func() {
		if r := recover(); r != nil {
			if s, ok := r.(specErr); ok {
				err = fmt.Errorf("spec parse error: %s in %q", string(s), src)
				return
			}
			panic(r)
		}
	}()
	e = ps.expr()
	if ps.peek().k != "eof" {
		ps.fail("unexpected token %q at %d", ps.peek().s, ps.peek().pos)
	}
	return e, nil
}

type specErr string

func (ps *sparser) fail(f string, a ...interface{}) { panic(specErr(fmt.Sprintf(f, a...))) }
func (ps *sparser) peek() tok                       { return ps.toks[ps.p] }
func (ps *sparser) next() tok                       { t := ps.toks[ps.p]; ps.p++; return t }
func (ps *sparser) isOp(s string) bool              { t := ps.peek(); return t.k == "op" && t.s == s }
func (ps *sparser) isID(s string) bool              { t := ps.peek(); return t.k == "id" && t.s == s }
func (ps *sparser) expectOp(s string) {
	if !ps.isOp(s) {
		ps.fail("expected %q, found %q at %d", s, ps.peek().s, ps.peek().pos)
	}
	ps.next()
}

func (ps *sparser) expr() *SExpr {
	if ps.isID("forall") || ps.isID("exists") {
		q := ps.next().s
		var vars []QVar
		for {
			t := ps.next()
			if t.k != "id" {
				ps.fail("quantifier variable expected")
			}
			v := QVar{Name: t.s, Ty: ""}
			// optional type: tokens until ',' or '::'
			if !ps.isOp(",") && !ps.isOp("::") {
				v.Ty = ps.typeText()
			}
			vars = append(vars, v)
			if ps.isOp(",") {
				ps.next()
				continue
			}
			break
		}
		ps.expectOp("::")
		body := ps.expr()
		// propagate a type given after a group "i, j int"
		for i := len(vars) - 2; i >= 0; i-- {
			if vars[i].Ty == "" {
				vars[i].Ty = vars[i+1].Ty
			}
		}
		return &SExpr{Op: "quant", Name: q, Vars: vars, Args: []*SExpr{body}}
	}
	return ps.ternary()
}

// typeText consumes a type expression and returns its text.
func (ps *sparser) typeText() string {
	var b strings.Builder
	for {
		t := ps.peek()
		switch {
		case t.k == "op" && t.s == "*":
			b.WriteString("*")
			ps.next()
		case t.k == "op" && t.s == "[":
			ps.next()
			if ps.isOp("]") {
				ps.next()
				b.WriteString("[]")
				continue
			}
			ps.fail("bad type")
		case t.k == "id" && (t.s == "map" || t.s == "gmap" || t.s == "gset"):
			ps.next()
			ps.expectOp("[")
			k := ps.typeText()
			ps.expectOp("]")
			if t.s == "gset" {
				return b.String() + "gset[" + k + "]"
			}
			v := ps.typeText()
			return b.String() + t.s + "[" + k + "]" + v
		case t.k == "id":
			ps.next()
			b.WriteString(t.s)
			if ps.isOp(".") {
				ps.next()
				n := ps.next()
				b.WriteString("." + n.s)
			}
			return b.String()
		default:
			ps.fail("bad type at %d", t.pos)
		}
	}
}

func (ps *sparser) ternary() *SExpr {
	c := ps.iff()
	if ps.isOp("?") {
		ps.next()
		a := ps.expr()
		ps.expectOp(":")
		b := ps.expr()
		return &SExpr{Op: "tern", Args: []*SExpr{c, a, b}}
	}
	return c
}

func (ps *sparser) iff() *SExpr {
	l := ps.implies()
	for ps.isOp("<==>") {
		ps.next()
		r := ps.implies()
		l = &SExpr{Op: "bin", Name: "<==>", Args: []*SExpr{l, r}}
	}
	return l
}

func (ps *sparser) implies() *SExpr {
	l := ps.or()
	if ps.isOp("==>") {
		ps.next()
		var r *SExpr
		if ps.isID("forall") || ps.isID("exists") {
			r = ps.expr()
		} else {
			r = ps.implies()
		}
		return &SExpr{Op: "bin", Name: "==>", Args: []*SExpr{l, r}}
	}
	return l
}

func (ps *sparser) or() *SExpr {
	l := ps.and()
	for ps.isOp("||") {
		ps.next()
		r := ps.and()
		l = &SExpr{Op: "bin", Name: "||", Args: []*SExpr{l, r}}
	}
	return l
}

func (ps *sparser) and() *SExpr {
	l := ps.cmp()
	for ps.isOp("&&") {
		ps.next()
		var r *SExpr
		if ps.isID("forall") || ps.isID("exists") {
			r = ps.expr()
		} else {
			r = ps.cmp()
		}
		l = &SExpr{Op: "bin", Name: "&&", Args: []*SExpr{l, r}}
	}
	return l
}

func isCmpOp(t tok) bool {
	if t.k == "op" {
		switch t.s {
		case "==", "!=", "<", "<=", ">", ">=":
			return true
		}
	}
	return t.k == "id" && (t.s == "in")
}

func (ps *sparser) cmp() *SExpr {
	l := ps.add()
	if ps.isID("is") {
		ps.next()
		ty := ps.typeText()
		return &SExpr{Op: "is", Ty: ty, Args: []*SExpr{l}}
	}
	if !isCmpOp(ps.peek()) {
		return l
	}
	operands := []*SExpr{l}
	var ops []string
	for isCmpOp(ps.peek()) {
		ops = append(ops, ps.next().s)
		operands = append(operands, ps.add())
	}
	if len(ops) == 1 {
		return &SExpr{Op: "bin", Name: ops[0], Args: operands}
	}
	return &SExpr{Op: "chain", Ops: ops, Args: operands}
}

func (ps *sparser) add() *SExpr {
	l := ps.mul()
	for ps.isOp("+") || ps.isOp("-") || ps.isOp("|") || ps.isOp("^") {
		o := ps.next().s
		r := ps.mul()
		l = &SExpr{Op: "bin", Name: o, Args: []*SExpr{l, r}}
	}
	return l
}

func (ps *sparser) mul() *SExpr {
	l := ps.unary()
	for ps.isOp("*") || ps.isOp("/") || ps.isOp("%") || ps.isOp("&") {
		o := ps.next().s
		r := ps.unary()
		l = &SExpr{Op: "bin", Name: o, Args: []*SExpr{l, r}}
	}
	return l
}

func (ps *sparser) unary() *SExpr {
	if ps.isOp("!") || ps.isOp("-") || ps.isOp("*") {
		o := ps.next().s
		x := ps.unary()
		return &SExpr{Op: "un", Name: o, Args: []*SExpr{x}}
	}
	return ps.postfix()
}

func (ps *sparser) postfix() *SExpr {
	x := ps.primary()
	for {
		switch {
		case ps.isOp("."):
			ps.next()
			if ps.isOp("(") {
				// type assertion x.(T)
				ps.next()
				ty := ps.typeText()
				ps.expectOp(")")
				x = &SExpr{Op: "cast", Ty: ty, Args: []*SExpr{x}}
				continue
			}
			t := ps.next()
			if t.k != "id" {
				ps.fail("field name expected at %d", t.pos)
			}
			x = &SExpr{Op: "sel", Name: t.s, Args: []*SExpr{x}}
		case ps.isOp("["):
			ps.next()
			i := ps.expr()
			if ps.isOp(":=") {
				ps.next()
				v := ps.expr()
				ps.expectOp("]")
				x = &SExpr{Op: "update", Args: []*SExpr{x, i, v}}
			} else {
				ps.expectOp("]")
				x = &SExpr{Op: "index", Args: []*SExpr{x, i}}
			}
		case ps.isOp("("):
			ps.next()
			var args []*SExpr
			for !ps.isOp(")") {
				args = append(args, ps.expr())
				if ps.isOp(",") {
					ps.next()
				}
			}
			ps.expectOp(")")
			x = &SExpr{Op: "call", Args: append([]*SExpr{x}, args...)}
		default:
			return x
		}
	}
}

func (ps *sparser) primary() *SExpr {
	t := ps.next()
	switch t.k {
	case "num":
		return &SExpr{Op: "num", Name: strings.ReplaceAll(t.s, "_", ""), Pos: t.pos}
	case "str":
		return &SExpr{Op: "str", Name: t.s, Pos: t.pos}
	case "id":
		if t.s == "old" && ps.isOp("(") {
			ps.next()
			e := ps.expr()
			ps.expectOp(")")
			return &SExpr{Op: "old", Args: []*SExpr{e}}
		}
		if t.s == "forall" || t.s == "exists" {
			ps.p--
			return ps.expr()
		}
		return &SExpr{Op: "ident", Name: t.s, Pos: t.pos}
	case "op":
		if t.s == "(" {
			e := ps.expr()
			ps.expectOp(")")
			return e
		}
	}
	ps.fail("unexpected %q at %d", t.s, t.pos)
	return nil
}

func (e *SExpr) String() string {
	if e == nil {
		return "<nil>"
	}
	switch e.Op {
	case "ident", "num":
		return e.Name
	case "str":
		return fmt.Sprintf("%q", e.Name)
	case "sel":
		return e.Args[0].String() + "." + e.Name
	case "index":
		return e.Args[0].String() + "[" + e.Args[1].String() + "]"
	case "update":
		return e.Args[0].String() + "[" + e.Args[1].String() + " := " + e.Args[2].String() + "]"
	case "call":
		var as []string
		for _, a := range e.Args[1:] {
			as = append(as, a.String())
		}
		return e.Args[0].String() + "(" + strings.Join(as, ", ") + ")"
	case "un":
		return e.Name + e.Args[0].String()
	case "bin":
		return "(" + e.Args[0].String() + " " + e.Name + " " + e.Args[1].String() + ")"
	case "chain":
		s := e.Args[0].String()
		for i, o := range e.Ops {
			s += " " + o + " " + e.Args[i+1].String()
		}
		return "(" + s + ")"
	case "quant":
		var vs []string
		for _, v := range e.Vars {
			vs = append(vs, strings.TrimSpace(v.Name+" "+v.Ty))
		}
		return "(" + e.Name + " " + strings.Join(vs, ", ") + " :: " + e.Args[0].String() + ")"
	case "tern":
		return "(" + e.Args[0].String() + " ? " + e.Args[1].String() + " : " + e.Args[2].String() + ")"
	case "old":
		return "old(" + e.Args[0].String() + ")"
	case "cast":
		return e.Args[0].String() + ".(" + e.Ty + ")"
	case "is":
		return "(" + e.Args[0].String() + " is " + e.Ty + ")"
	}
	return "?" + e.Op
}
