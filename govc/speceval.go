package main

import (
	"fmt"
	"go/constant"
	"go/types"
	"math/big"
	"strings"

	"golang.org/x/tools/go/ssa"
)

// Env evaluates spec expressions to symbolic Values in a given (current, old) state pair.
type Env struct {
	e       *Exec
	vars    map[string]Value
	st      *State
	old     *State
	pkgPath string
	lookup  func(name string) (Value, bool)
	inQuant int
	congr   bool // evaluating operands of same(): build exactly the code's uninterpreted terms
}

type specError struct{ msg string }

func specFail(f string, a ...interface{}) { panic(specError{fmt.Sprintf(f, a...)}) }

var untypedInt = types.Typ[types.UntypedInt]
var untypedFloat = types.Typ[types.UntypedFloat]
var tInt = types.Typ[types.Int]
var tBool = types.Typ[types.Bool]
var tString = types.Typ[types.String]
var tFloat64 = types.Typ[types.Float64]

func boolVal(t string) Value { return Value{T: tBool, S: []string{t}} }
func intVal(t string) Value  { return Value{T: tInt, S: []string{t}} }

func (env *Env) with(vars map[string]Value) *Env {
	n := *env
	n.vars = map[string]Value{}
	for k, v := range env.vars {
		n.vars[k] = v
	}
	for k, v := range vars {
		n.vars[k] = v
	}
	return &n
}

func (env *Env) evalBool(x *SExpr) string {
	v := env.eval(x)
	if !isBool(v.T) {
		specFail("boolean expected: %s has type %s", x, v.T)
	}
	return v.S[0]
}

func (env *Env) resolveType(txt string) types.Type {
	txt = strings.TrimSpace(txt)
	switch {
	case txt == "" || txt == "int":
		return tInt
	case txt == "bool":
		return tBool
	case txt == "string":
		return tString
	case txt == "float64":
		return tFloat64
	case txt == "float32":
		return types.Typ[types.Float32]
	case txt == "real":
		return realType
	case txt == "error", txt == "any":
		return types.Universe.Lookup(txt).Type()
	case strings.HasPrefix(txt, "*"):
		return types.NewPointer(env.resolveType(txt[1:]))
	case strings.HasPrefix(txt, "[]"):
		return types.NewSlice(env.resolveType(txt[2:]))
	case strings.HasPrefix(txt, "map["), strings.HasPrefix(txt, "gmap["), strings.HasPrefix(txt, "gset["):
		i := strings.Index(txt, "[")
		j := matchBracket(txt, i)
		k := env.resolveType(txt[i+1 : j])
		if strings.HasPrefix(txt, "gset[") {
			return &GhostMap{K: k, V: tBool}
		}
		v := env.resolveType(txt[j+1:])
		if strings.HasPrefix(txt, "gmap[") {
			return &GhostMap{K: k, V: v}
		}
		return types.NewMap(k, v)
	}
	if b := types.Universe.Lookup(txt); b != nil {
		if tn, ok := b.(*types.TypeName); ok {
			return tn.Type()
		}
	}
	pkgPath := env.pkgPath
	name := txt
	if i := strings.Index(txt, "."); i >= 0 {
		pkgPath = resolvePkgName(env.e.P, env.pkgPath, txt[:i])
		name = txt[i+1:]
	}
	if sp, ok := env.e.P.ByPkg[pkgPath]; ok {
		if o := sp.Pkg.Scope().Lookup(name); o != nil {
			if tn, ok := o.(*types.TypeName); ok {
				return tn.Type()
			}
		}
	}
	specFail("unknown type %q", txt)
	return nil
}

func matchBracket(s string, i int) int {
	d := 0
	for j := i; j < len(s); j++ {
		switch s[j] {
		case '[':
			d++
		case ']':
			d--
			if d == 0 {
				return j
			}
		}
	}
	return -1
}

func (env *Env) state() *State { return env.st }

func (env *Env) eval(x *SExpr) Value {
	e := env.e
	switch x.Op {
	case "num":
		if strings.ContainsAny(x.Name, ".e") && !strings.HasPrefix(x.Name, "0x") {
			return Value{T: untypedFloat, S: []string{x.Name}}
		}
		c := constant.MakeFromLiteral(x.Name, 5 /*token.INT*/, 0)
		if c.Kind() == constant.Unknown {
			specFail("bad number %q", x.Name)
		}
		return Value{T: untypedInt, S: []string{c.ExactString()}}
	case "str":
		return Value{T: tString, S: []string{e.strConst(x.Name)}}
	case "ident":
		return env.ident(x.Name)
	case "old":
		if env.old == nil {
			specFail("old() not available here")
		}
		n := *env
		n.st = env.old
		if env.lookup != nil {
			// old() of a local makes no sense; identifiers denote the entry values of parameters
			n.lookup = nil
			n.vars = map[string]Value{}
			for k, v := range env.e.params {
				n.vars[k] = v
			}
			for k, v := range env.vars {
				if _, isParam := n.vars[k]; !isParam {
					n.vars[k] = v
				}
			}
		}
		return n.eval(x.Args[0])
	case "sel":
		// package-qualified name?
		if x.Args[0].Op == "ident" {
			if _, isVar := env.tryIdent(x.Args[0].Name); !isVar {
				if v, ok := env.qualified(x.Args[0].Name, x.Name); ok {
					return v
				}
			}
		}
		if loc, ok := env.evalLV(x); ok {
			return e.load(env.st, loc)
		}
		base := env.eval(x.Args[0])
		st, ok := base.T.Underlying().(*types.Struct)
		if !ok {
			specFail("selector .%s on non-struct %s", x.Name, base.T)
		}
		idx := fieldIndex(st, x.Name)
		if idx < 0 {
			specFail("no field %s in %s", x.Name, base.T)
		}
		off, n, _ := fieldRange(st, idx)
		return Value{T: st.Field(idx).Type(), S: base.S[off : off+n]}
	case "index":
		base := env.eval(x.Args[0])
		idx := env.eval(x.Args[1])
		switch u := base.T.Underlying().(type) {
		case *types.Slice:
			loc := &Loc{Kind: LElem, Obj: u.Elem(), Ref: base.S[0], Idx: env.asInt(idx), T: u.Elem()}
			return e.load(env.st, loc)
		case *types.Map:
			return e.mapLookup(env.st, base, env.coerce(idx, u.Key()))
		case *GhostMap:
			return Value{T: u.V, S: []string{"(select " + base.S[0] + " " + env.coerceKey(idx, u.K) + ")"}}
		}
		specFail("index on %s", base.T)
	case "update":
		base := env.eval(x.Args[0])
		gm, ok := base.T.Underlying().(*GhostMap)
		if !ok {
			specFail("update m[k := v] needs a ghost map, got %s", base.T)
		}
		k := env.coerceKey(env.eval(x.Args[1]), gm.K)
		v := env.coerce(env.eval(x.Args[2]), gm.V)
		return Value{T: base.T, S: []string{"(store " + base.S[0] + " " + k + " " + v.S[0] + ")"}}
	case "un":
		switch x.Name {
		case "!":
			return boolVal("(not " + env.evalBool(x.Args[0]) + ")")
		case "-":
			v := env.eval(x.Args[0])
			switch {
			case v.T == untypedInt:
				return Value{T: untypedInt, S: []string{"(- " + v.S[0] + ")"}}
			case v.T == untypedFloat:
				return Value{T: untypedFloat, S: []string{"-" + v.S[0]}}
			case isFloat(v.T):
				return e.floatNeg(v)
			default:
				return Value{T: v.T, S: []string{"(- " + v.S[0] + ")"}}
			}
		case "*":
			loc, ok := env.evalLV(x)
			if !ok {
				specFail("cannot dereference %s", x.Args[0])
			}
			return e.load(env.st, loc)
		}
	case "bin":
		return env.binop(x)
	case "chain":
		var parts []string
		prev := env.eval(x.Args[0])
		for i, op := range x.Ops {
			nxt := env.eval(x.Args[i+1])
			parts = append(parts, env.compare(op, prev, nxt))
			prev = nxt
		}
		return boolVal("(and " + strings.Join(parts, " ") + ")")
	case "tern":
		c := env.evalBool(x.Args[0])
		a := env.eval(x.Args[1])
		b := env.eval(x.Args[2])
		a, b = env.unify(a, b)
		out := Value{T: a.T, S: make([]string, len(a.S))}
		for i := range a.S {
			out.S[i] = "(ite " + c + " " + a.S[i] + " " + b.S[i] + ")"
		}
		return out
	case "quant":
		vars := map[string]Value{}
		var decl []string
		for _, qv := range x.Vars {
			t := env.resolveType(qv.Ty)
			e.nfresh++
			name := fmt.Sprintf("q!%s!%d", qv.Name, e.nfresh)
			vars[qv.Name] = Value{T: t, S: []string{name}}
			decl = append(decl, "("+name+" "+sortOfScalar(t)+")")
		}
		n := env.with(vars)
		n.inQuant++
		e.quiet++
		body := func() string { defer func() { e.quiet-- }(); return n.evalBool(x.Args[0]) }()
		return boolVal("(" + x.Name + " (" + strings.Join(decl, " ") + ") " + body + ")")
	case "is":
		v := env.eval(x.Args[0])
		if !isInterface(v.T) {
			specFail("'is' needs an interface value, got %s", v.T)
		}
		t := env.resolveType(x.Ty)
		return boolVal(fmt.Sprintf("(= %s %d)", v.S[0], typeReg.id(t)))
	case "cast":
		v := env.eval(x.Args[0])
		t := env.resolveType(x.Ty)
		if isInterface(v.T) {
			return e.unboxIface(env.st, v, t)
		}
		return env.coerce(v, t)
	case "call":
		return env.call(x)
	}
	specFail("cannot evaluate %s", x)
	return Value{}
}

func fieldIndex(st *types.Struct, name string) int {
	for i := 0; i < st.NumFields(); i++ {
		if st.Field(i).Name() == name {
			return i
		}
	}
	return -1
}

func (env *Env) tryIdent(name string) (Value, bool) {
	if v, ok := env.vars[name]; ok {
		return v, true
	}
	if env.lookup != nil {
		if v, ok := env.lookup(name); ok {
			return v, true
		}
	}
	if g, ok := env.e.CS.Ghost[name]; ok {
		t := env.resolveTypeIn(g.Ty, g.PkgPath)
		sl := slotsOf(t)
		v := Value{T: t, S: make([]string, len(sl))}
		for i, sd := range sl {
			v.S[i] = env.e.compTerm(env.st, "G|"+name+sd.Path, sd.Sort)
		}
		return v, true
	}
	switch name {
	case "W":
		return intVal(env.e.W(env.st)), true
	case "nil":
		return Value{T: types.Typ[types.UntypedNil], S: []string{"0"}}, true
	case "true":
		return boolVal("true"), true
	case "false":
		return boolVal("false"), true
	}
	if v, ok := env.qualified("", name); ok {
		return v, true
	}
	return Value{}, false
}

func (env *Env) resolveTypeIn(txt, pkg string) types.Type {
	n := *env
	n.pkgPath = pkg
	return n.resolveType(txt)
}

func (env *Env) ident(name string) Value {
	if v, ok := env.tryIdent(name); ok {
		return v
	}
	specFail("unknown identifier %q", name)
	return Value{}
}

// qualified resolves pkg.Name (or Name in the contract's own package) to a constant or a
// package-level variable.
func (env *Env) qualified(pkgName, name string) (Value, bool) {
	pkgPath := env.pkgPath
	if pkgName != "" {
		pkgPath = resolvePkgName(env.e.P, env.pkgPath, pkgName)
	}
	sp, ok := env.e.P.ByPkg[pkgPath]
	if !ok {
		return Value{}, false
	}
	o := sp.Pkg.Scope().Lookup(name)
	if o == nil {
		return Value{}, false
	}
	switch o := o.(type) {
	case *types.Const:
		return env.e.constValue(o.Type(), o.Val()), true
	case *types.Var:
		if g, ok := sp.Members[name].(*ssa.Global); ok {
			return env.e.loadGlobal(env.st, g), true
		}
	}
	return Value{}, false
}

// evalLV evaluates an expression denoting a heap location.
func (env *Env) evalLV(x *SExpr) (*Loc, bool) {
	e := env.e
	switch x.Op {
	case "sel":
		if x.Args[0].Op == "ident" {
			if _, isVar := env.tryIdent(x.Args[0].Name); !isVar {
				// package-level variable
				pkgPath := resolvePkgName(e.P, env.pkgPath, x.Args[0].Name)
				if sp, ok := e.P.ByPkg[pkgPath]; ok {
					if g, ok := sp.Members[x.Name].(*ssa.Global); ok {
						return e.globalLoc(g), true
					}
				}
				return nil, false
			}
		}
		// base is a location of struct type, or a pointer to a struct
		if bl, ok := env.evalLV(x.Args[0]); ok {
			if st, ok := bl.T.Underlying().(*types.Struct); ok {
				idx := fieldIndex(st, x.Name)
				if idx < 0 {
					specFail("no field %s in %s", x.Name, bl.T)
				}
				n := *bl
				n.Path = bl.Path + "." + x.Name
				n.T = st.Field(idx).Type()
				return &n, true
			}
		}
		base := env.eval(x.Args[0])
		if pt, ok := base.T.Underlying().(*types.Pointer); ok {
			st, ok := pt.Elem().Underlying().(*types.Struct)
			if !ok {
				specFail("selector .%s through pointer to non-struct %s", x.Name, pt.Elem())
			}
			idx := fieldIndex(st, x.Name)
			if idx < 0 {
				specFail("no field %s in %s", x.Name, pt.Elem())
			}
			if base.Loc != nil {
				n := *base.Loc
				n.Path += "." + x.Name
				n.T = st.Field(idx).Type()
				return &n, true
			}
			return &Loc{Kind: LHeap, Obj: pt.Elem(), Ref: base.S[0], Path: "." + x.Name, T: st.Field(idx).Type()}, true
		}
		return nil, false
	case "un":
		if x.Name == "*" {
			base := env.eval(x.Args[0])
			pt, ok := base.T.Underlying().(*types.Pointer)
			if !ok {
				specFail("dereference of non-pointer %s", base.T)
			}
			if base.Loc != nil {
				return base.Loc, true
			}
			return &Loc{Kind: LHeap, Obj: pt.Elem(), Ref: base.S[0], T: pt.Elem()}, true
		}
	case "index":
		base := env.eval(x.Args[0])
		if sl, ok := base.T.Underlying().(*types.Slice); ok {
			idx := env.eval(x.Args[1])
			return &Loc{Kind: LElem, Obj: sl.Elem(), Ref: base.S[0], Idx: env.asInt(idx), T: sl.Elem()}, true
		}
	case "ident":
		if _, isVar := env.vars[x.Name]; isVar {
			return nil, false
		}
		if sp, ok := e.P.ByPkg[env.pkgPath]; ok {
			if g, ok := sp.Members[x.Name].(*ssa.Global); ok {
				return e.globalLoc(g), true
			}
		}
	}
	return nil, false
}

func (env *Env) asInt(v Value) string {
	if v.T == untypedInt || isInteger(v.T) {
		return v.S[0]
	}
	specFail("integer expected, got %s", v.T)
	return ""
}

// coerce converts untyped constants (and nil) to the wanted type.
func isSpecType(t types.Type) bool {
	switch t.(type) {
	case *GhostMap, *RealT, *sentinelType:
		return true
	}
	return false
}

func (env *Env) coerce(v Value, t types.Type) Value {
	e := env.e
	if v.T == t {
		return v
	}
	if isSpecType(v.T) || isSpecType(t) {
		if isSpecType(v.T) && isSpecType(t) && v.T.String() == t.String() {
			return Value{T: t, S: v.S}
		}
		if isInteger(v.T) && t == realType {
			return Value{T: t, S: []string{"(to_real " + v.S[0] + ")"}}
		}
		if v.T == untypedInt || v.T == untypedFloat {
			// fall through to the literal cases below
		} else {
			specFail("cannot use %s as %s", v.T, t)
		}
	}
	switch {
	case v.T == untypedInt:
		switch {
		case isFloat(t):
			f, _ := new(big.Float).SetString(v.S[0])
			if f == nil {
				specFail("non-literal integer used as float")
			}
			return e.floatConst(t, f)
		case t == realType:
			return Value{T: t, S: []string{"(to_real " + v.S[0] + ")"}}
		case isInteger(t):
			return Value{T: t, S: v.S}
		}
	case v.T == untypedFloat:
		switch {
		case isFloat(t):
			f, _, err := big.ParseFloat(v.S[0], 10, 200, big.ToNearestEven)
			if err != nil {
				specFail("bad float literal %s", v.S[0])
			}
			return e.floatConst(t, f)
		case t == realType:
			r, ok := new(big.Rat).SetString(v.S[0])
			if !ok {
				specFail("bad real literal %s", v.S[0])
			}
			return Value{T: t, S: []string{ratTerm(r)}}
		}
	case v.T == types.Typ[types.UntypedNil]:
		return zeroValue(t)
	case isInteger(v.T) && isInteger(t):
		return Value{T: t, S: v.S}
	case isInteger(v.T) && t == realType:
		return Value{T: t, S: []string{"(to_real " + v.S[0] + ")"}}
	case types.Identical(v.T, t):
		return Value{T: t, S: v.S, Loc: v.Loc}
	case types.Identical(v.T.Underlying(), t.Underlying()):
		return Value{T: t, S: v.S, Loc: v.Loc}
	}
	specFail("cannot use %s as %s", v.T, t)
	return Value{}
}

func (env *Env) unify(a, b Value) (Value, Value) {
	ua := a.T == untypedInt || a.T == untypedFloat || a.T == types.Typ[types.UntypedNil]
	ub := b.T == untypedInt || b.T == untypedFloat || b.T == types.Typ[types.UntypedNil]
	switch {
	case ua && ub:
		if a.T == untypedFloat || b.T == untypedFloat {
			return env.coerce(a, realType), env.coerce(b, realType)
		}
		return Value{T: tInt, S: a.S}, Value{T: tInt, S: b.S}
	case ua:
		return env.coerce(a, b.T), b
	case ub:
		return a, env.coerce(b, a.T)
	}
	// mixed integer / float comparisons are made over the reals (a local whose type was changed
	// from int to float64 must not make the contract unreadable)
	if isInteger(a.T) && isFloat(b.T) {
		return Value{T: b.T, S: []string{"0", "(to_real " + a.S[0] + ")"}}, b
	}
	if isFloat(a.T) && isInteger(b.T) {
		return a, Value{T: a.T, S: []string{"0", "(to_real " + b.S[0] + ")"}}
	}
	if isInteger(a.T) && b.T == realType {
		return env.coerce(a, realType), b
	}
	if isInteger(b.T) && a.T == realType {
		return a, env.coerce(b, realType)
	}
	return a, b
}

func (env *Env) compare(op string, a, b Value) string {
	if op == "in" {
		switch u := b.T.Underlying().(type) {
		case *types.Map:
			return env.e.mapHas(env.st, b, env.coerce(a, u.Key()))
		case *GhostMap:
			return "(select " + b.S[0] + " " + env.coerceKey(a, u.K) + ")"
		}
		specFail("'in' needs a map or set, got %s", b.T)
	}
	a, b = env.unify(a, b)
	if isFloat(a.T) && isFloat(b.T) {
		env.e.cmpHint(a, b)
		return floatCmp(op, a, b)
	}
	switch op {
	case "==", "!=":
		eq := valuesEqual(a, b)
		if op == "!=" {
			return "(not " + eq + ")"
		}
		return eq
	}
	if len(a.S) != 1 || len(b.S) != 1 {
		specFail("ordering comparison on %s", a.T)
	}
	return "(" + op + " " + a.S[0] + " " + b.S[0] + ")"
}

func valuesEqual(a, b Value) string {
	if isFloat(a.T) {
		return floatCmp("==", a, b)
	}
	if len(a.S) != len(b.S) {
		specFail("cannot compare %s and %s", a.T, b.T)
	}
	if len(a.S) == 0 {
		return "true"
	}
	if isSlice(a.T) {
		// slices compare only against nil
		return "(= " + a.S[0] + " " + b.S[0] + ")"
	}
	var parts []string
	for i := range a.S {
		parts = append(parts, "(= "+a.S[i]+" "+b.S[i]+")")
	}
	if len(parts) == 1 {
		return parts[0]
	}
	return "(and " + strings.Join(parts, " ") + ")"
}

func (env *Env) binop(x *SExpr) Value {
	e := env.e
	switch x.Name {
	case "&&", "||", "==>", "<==>":
		a := env.evalBool(x.Args[0])
		b := env.evalBool(x.Args[1])
		switch x.Name {
		case "&&":
			return boolVal("(and " + a + " " + b + ")")
		case "||":
			return boolVal("(or " + a + " " + b + ")")
		case "==>":
			return boolVal("(=> " + a + " " + b + ")")
		default:
			return boolVal("(= " + a + " " + b + ")")
		}
	case "==", "!=", "<", "<=", ">", ">=", "in":
		return boolVal(env.compare(x.Name, env.eval(x.Args[0]), env.eval(x.Args[1])))
	}
	a, b := env.unify(env.eval(x.Args[0]), env.eval(x.Args[1]))
	switch {
	case isFloat(a.T):
		return e.floatBin(x.Name, a, b, a.T)
	case a.T == realType:
		switch x.Name {
		case "+", "-", "*", "/":
			return Value{T: realType, S: []string{"(" + x.Name + " " + a.S[0] + " " + b.S[0] + ")"}}
		}
	case isInteger(a.T):
		switch x.Name {
		case "+", "-", "*":
			return Value{T: a.T, S: []string{"(" + x.Name + " " + a.S[0] + " " + b.S[0] + ")"}}
		case "/":
			return Value{T: a.T, S: []string{"(tdiv " + a.S[0] + " " + b.S[0] + ")"}}
		case "%":
			return Value{T: a.T, S: []string{"(tmod " + a.S[0] + " " + b.S[0] + ")"}}
		case "&":
			return Value{T: a.T, S: []string{bitAnd(a.S[0], b.S[0])}}
		}
	case isString(a.T):
		if x.Name == "+" {
			return Value{T: a.T, S: []string{"(strcat " + a.S[0] + " " + b.S[0] + ")"}}
		}
	}
	specFail("operator %s on %s", x.Name, a.T)
	return Value{}
}

// bitAnd expands x & mask for a literal mask.
func bitAnd(x, mask string) string {
	var m int64
	if _, err := fmt.Sscanf(mask, "%d", &m); err != nil || m < 0 {
		if _, err2 := fmt.Sscanf(x, "%d", &m); err2 == nil && m >= 0 {
			x = mask
		} else {
			unsupportedf("bitwise & needs a non-negative literal operand (%s & %s)", x, mask)
		}
	}
	var parts []string
	for bit := 0; bit < 62; bit++ {
		if m&(1<<uint(bit)) != 0 {
			p := fmt.Sprintf("%d", int64(1)<<uint(bit))
			parts = append(parts, fmt.Sprintf("(* %s (mod (div %s %s) 2))", p, x, p))
		}
	}
	if len(parts) == 0 {
		return "0"
	}
	if len(parts) == 1 {
		return parts[0]
	}
	return "(+ " + strings.Join(parts, " ") + ")"
}

func (env *Env) call(x *SExpr) Value {
	e := env.e
	fnx := x.Args[0]
	args := x.Args[1:]
	name := ""
	switch fnx.Op {
	case "ident":
		name = fnx.Name
	case "sel":
		if fnx.Args[0].Op == "ident" {
			name = fnx.Args[0].Name + "." + fnx.Name
		}
	}
	if name == "" {
		specFail("cannot call %s", fnx)
	}
	switch name {
	case "len":
		v := env.eval(args[0])
		switch v.T.Underlying().(type) {
		case *types.Slice:
			return intVal(v.S[1])
		case *types.Map:
			return intVal(e.mapLen(env.st, v))
		case *types.Basic:
			if isString(v.T) {
				return intVal("(strlen " + v.S[0] + ")")
			}
		}
		specFail("len of %s", v.T)
	case "cap":
		v := env.eval(args[0])
		return intVal(v.S[2])
	case "ref":
		v := env.eval(args[0])
		switch {
		case len(v.S) == 0 && v.Loc != nil && v.Loc.Kind == LHeap:
			return intVal(env.coerceKey(v, tInt))
		case isInterface(v.T):
			return intVal(v.S[1])
		case isRefLike(v.T):
			return intVal(v.S[0])
		}
		specFail("ref() of %s", v.T)
	case "mapdom", "mapval", "mapvalk":
		v := env.eval(args[0])
		mt, ok := v.T.Underlying().(*types.Map)
		if !ok {
			specFail("%s needs a map", name)
		}
		parts := e.mapParts(v.T)
		switch name {
		case "mapdom":
			return Value{T: &GhostMap{K: mt.Key(), V: tBool}, S: []string{"(select " + e.compTerm(env.st, parts[0].name, parts[0].sort) + " " + v.S[0] + ")"}}
		case "mapval":
			// the value slot (for floats: the real value slot .v)
			idx := 2
			if isFloat(mt.Elem()) {
				idx = 3
			}
			vt := mt.Elem()
			if isFloat(vt) {
				vt = realType
			}
			return Value{T: &GhostMap{K: mt.Key(), V: vt}, S: []string{"(select " + e.compTerm(env.st, parts[idx].name, parts[idx].sort) + " " + v.S[0] + ")"}}
		default:
			if !isFloat(mt.Elem()) {
				specFail("mapvalk needs a float-valued map")
			}
			return Value{T: &GhostMap{K: mt.Key(), V: tInt}, S: []string{"(select " + e.compTerm(env.st, parts[2].name, parts[2].sort) + " " + v.S[0] + ")"}}
		}
	case "seqof":
		v := env.eval(args[0])
		sl, ok := v.T.Underlying().(*types.Slice)
		if !ok || len(slotsOf(sl.Elem())) != 1 {
			specFail("seqof needs a slice of scalars")
		}
		sd := slotsOf(sl.Elem())[0]
		arr := e.compTerm(env.st, elemComp(sl.Elem(), sd.Path), "(Array Int (Array Int "+sd.Sort+"))")
		return Value{T: &GhostMap{K: tInt, V: sl.Elem()}, S: []string{"(select " + arr + " " + v.S[0] + ")"}}
	case "sumto":
		m := env.eval(args[0])
		n := env.eval(args[1])
		if gm, ok := m.T.Underlying().(*GhostMap); !ok || !isInteger(gm.V) {
			specFail("sumto needs a gmap[int]int")
		}
		return intVal("(sumto " + m.S[0] + " " + env.asInt(n) + ")")
	case "arrayOf":
		v := env.eval(args[0])
		if !isSlice(v.T) {
			specFail("arrayOf needs a slice")
		}
		return intVal(v.S[0])
	case "abs":
		v := env.eval(args[0])
		switch {
		case v.T == realType:
			return Value{T: realType, S: []string{"(absr " + v.S[0] + ")"}}
		case isFloat(v.T):
			r, _ := e.mathCall("math.Abs", []Value{v}, v.T)
			return r
		}
		return Value{T: tInt, S: []string{"(absi " + v.S[0] + ")"}}
	case "min", "max":
		a, b := env.unify(env.eval(args[0]), env.eval(args[1]))
		if isFloat(a.T) {
			r, _ := e.mathCall(map[string]string{"min": "math.Min", "max": "math.Max"}[name], []Value{a, b}, a.T)
			return r
		}
		op := "<="
		if name == "max" {
			op = ">="
		}
		return Value{T: a.T, S: []string{"(ite (" + op + " " + a.S[0] + " " + b.S[0] + ") " + a.S[0] + " " + b.S[0] + ")"}}
	case "same":
		// bit-identity is a congruence fact: the operands are built as plain uninterpreted terms,
		// no rounding-lemma instances are emitted for them
		e.quiet++
		n := *env
		n.congr = true
		a, b := func() (Value, Value) {
			defer func() { e.quiet-- }()
			return n.unify(n.eval(args[0]), n.eval(args[1]))
		}()
		if len(a.S) != len(b.S) {
			specFail("same() on different shapes")
		}
		var parts []string
		for i := range a.S {
			parts = append(parts, "(= "+a.S[i]+" "+b.S[i]+")")
		}
		return boolVal("(and " + strings.Join(parts, " ") + ")")
	case "fin":
		return boolVal(fIsFin(env.eval(args[0])))
	case "isnan":
		return boolVal(fIsNaN(env.eval(args[0])))
	case "isinf":
		return boolVal(fIsInf(env.eval(args[0])))
	case "real":
		v := env.eval(args[0])
		switch {
		case isFloat(v.T):
			return Value{T: realType, S: []string{v.S[1]}}
		case v.T == untypedInt || v.T == untypedFloat:
			return env.coerce(v, realType)
		case isInteger(v.T):
			return Value{T: realType, S: []string{"(to_real " + v.S[0] + ")"}}
		case v.T == realType:
			return v
		}
		specFail("real() of %s", v.T)
	case "trunc":
		v := env.eval(args[0])
		if isFloat(v.T) {
			return intVal("(trunc " + v.S[1] + ")")
		}
		return intVal("(trunc " + env.coerce(v, realType).S[0] + ")")
	case "isint":
		v := env.eval(args[0])
		if isFloat(v.T) {
			return boolVal("(is_int " + v.S[1] + ")")
		}
		return boolVal("(is_int " + env.coerce(v, realType).S[0] + ")")
	case "float64":
		v := env.eval(args[0])
		if isInteger(v.T) || v.T == untypedInt {
			if env.congr && !isNumeral(v.S[0]) {
				// the same uninterpreted term as the code's conversion (no lemma instance emitted)
				return Value{T: tFloat64, S: []string{"0", "(rnd64 (to_real " + v.S[0] + "))"}}
			}
			if env.inQuant > 0 && !isNumeral(v.S[0]) {
				// exact conversion only: callers must bound the argument by 2^53
				return Value{T: tFloat64, S: []string{"0", "(to_real " + v.S[0] + ")"}}
			}
			return e.intToFloat(tFloat64, v.S[0])
		}
		if isFloat(v.T) {
			return Value{T: tFloat64, S: v.S}
		}
		return env.coerce(v, tFloat64)
	case "float32":
		v := env.eval(args[0])
		if !isFloat(v.T) {
			specFail("float32() of %s", v.T)
		}
		if env.inQuant > 0 {
			return Value{T: types.Typ[types.Float32], S: []string{"(fk_32 " + v.S[0] + " " + v.S[1] + ")", "(rnd32 " + v.S[1] + ")"}}
		}
		return e.convert(v, types.Typ[types.Float32])
	case "round":
		v := env.eval(args[0])
		r, _ := e.mathCall("math.Round", []Value{v}, v.T)
		return r
	case "int":
		v := env.eval(args[0])
		if isFloat(v.T) {
			if env.inQuant > 0 {
				// inside a quantifier the defining axiom cannot be emitted as a ground fact: state it inline
				r := "(f2i64 " + v.S[0] + " " + v.S[1] + ")"
				return intVal(r)
			}
			return intVal(e.floatToInt(v, 64, false))
		}
		return Value{T: tInt, S: v.S}
	case "addrof":
		loc, ok := env.evalLV(args[0])
		if !ok || loc.Kind != LHeap || loc.Path != "" {
			specFail("addrof needs a package-level variable")
		}
		return Value{T: types.NewPointer(loc.T), S: []string{loc.Ref}}
	case "fresh":
		v := env.eval(args[0])
		if env.old == nil {
			specFail("fresh() needs a two-state context")
		}
		return boolVal(fmt.Sprintf("(and (>= %s %s) (< %s %s))", v.S[0], e.W(env.old), v.S[0], e.W(env.st)))
	case "nonnil":
		v := env.eval(args[0])
		return boolVal("(not (= " + v.S[0] + " 0))")
	case "typeid":
		v := env.eval(args[0])
		return intVal(v.S[0])
	case "strof":
		v := env.eval(args[0])
		if isSlice(v.T) {
			return Value{T: tString, S: []string{"(strofbytes " + v.S[0] + ")"}}
		}
		specFail("strof of %s", v.T)
	case "pathjoin":
		a, b := env.eval(args[0]), env.eval(args[1])
		e.ensureStrDecls()
		return Value{T: tString, S: []string{"(pathjoin " + a.S[0] + " " + b.S[0] + ")"}}
	case "atoi":
		v := env.eval(args[0])
		e.decimalAxioms()
		return intVal("(atoi " + v.S[0] + ")")
	case "trimsp":
		v := env.eval(args[0])
		e.decimalAxioms()
		return Value{T: tString, S: []string{"(trimsp " + v.S[0] + ")"}}
	case "itoa":
		v := env.eval(args[0])
		return Value{T: tString, S: []string{"(strfromint " + v.S[0] + ")"}}
	}
	// result function of a contract marked "functional"
	for _, k := range sortedKeys(e.CS.ByKey) {
		fc := e.CS.ByKey[k]
		if fc.Functional == name {
			var vals []Value
			for _, a := range args {
				vals = append(vals, env.eval(a))
			}
			if len(fc.Results) == 1 && fc.Results[0].Ty != "" {
				if rt := env.resolveTypeIn(fc.Results[0].Ty, fc.PkgPath); rt != nil {
					if sds := slotsOf(rt); len(sds) > 1 {
						out := Value{T: rt}
						for i, sd := range sds {
							out.S = append(out.S, e.functionalTerm(env.st, fmt.Sprintf("%s!%d", name, i), vals, sd.Sort))
						}
						return out
					} else if len(sds) == 1 && sds[0].Sort != "Int" {
						return Value{T: rt, S: []string{e.functionalTerm(env.st, name, vals, sds[0].Sort)}}
					}
				}
			}
			return intVal(e.functionalTerm(env.st, name, vals, "Int"))
		}
	}
	// pure spec function
	pf := e.CS.Pure[name]
	if pf == nil && fnx.Op == "ident" {
		pf = e.CS.Pure[baseName(env.pkgPath)+"."+name]
	}
	if pf == nil {
		specFail("unknown spec function %q", name)
	}
	if len(pf.Params) != len(args) {
		specFail("%s expects %d arguments", name, len(pf.Params))
	}
	vars := map[string]Value{}
	for i, p := range pf.Params {
		pt := env.resolveTypeIn(p.Ty, pf.PkgPath)
		vars[p.Name] = env.coerce(env.eval(args[i]), pt)
	}
	n := &Env{e: e, vars: vars, st: env.st, old: env.old, pkgPath: pf.PkgPath, inQuant: env.inQuant, congr: env.congr}
	// quantified variables of the caller stay visible only through the arguments
	r := n.eval(pf.Body)
	if pf.Ret != "" {
		r = n.coerce(r, n.resolveType(pf.Ret))
	}
	return r
}

func baseName(p string) string {
	if i := strings.LastIndex(p, "/"); i >= 0 {
		return p[i+1:]
	}
	return p
}

// modEntries evaluates a modifies expression to component-level frame entries.
func (env *Env) modEntries(x *SExpr, text string) []modEntry {
	e := env.e
	var out []modEntry
	addLoc := func(loc *Loc) {
		for _, sd := range slotsOf(loc.T) {
			switch loc.Kind {
			case LHeap:
				name := heapComp(loc.Obj, loc.Path+sd.Path)
				e.compSort[name] = "(Array Int " + sd.Sort + ")"
				out = append(out, modEntry{comp: name, ref: loc.Ref, text: text})
			case LElem:
				name := elemComp(loc.Obj, loc.Path+sd.Path)
				e.compSort[name] = "(Array Int (Array Int " + sd.Sort + "))"
				out = append(out, modEntry{comp: name, ref: loc.Ref, text: text})
			}
		}
	}
	// forms: ghost identifier | x.f | *p | s[*] | m[*] | x.*
	if x.Op == "ident" {
		if g, ok := e.CS.Ghost[x.Name]; ok {
			t := env.resolveTypeIn(g.Ty, g.PkgPath)
			for _, sd := range slotsOf(t) {
				name := "G|" + x.Name + sd.Path
				e.compSort[name] = sd.Sort
				out = append(out, modEntry{comp: name, text: text})
			}
			return out
		}
	}
	if x.Op == "index" && x.Args[1].Op == "ident" && x.Args[1].Name == "_" && x.Args[0].Op == "call" && x.Args[0].Args[0].Op == "ident" && x.Args[0].Args[0].Name == "each" {
		// each(map[K]V)[_] : the entries of every map of that type (whole components)
		tt := env.resolveType(x.Args[0].Args[1].String())
		if _, ok := tt.Underlying().(*types.Map); !ok {
			specFail("modifies %s: each(...)[_] needs a map type", text)
		}
		for _, part := range e.mapParts(tt) {
			e.compSort[part.name] = part.sort
			out = append(out, modEntry{comp: part.name, text: text})
		}
		return out
	}
	if x.Op == "index" && x.Args[1].Op == "ident" && x.Args[1].Name == "_" {
		base := env.eval(x.Args[0])
		switch u := base.T.Underlying().(type) {
		case *types.Slice:
			addLoc(&Loc{Kind: LElem, Obj: u.Elem(), Ref: base.S[0], T: u.Elem()})
			return out
		case *types.Map:
			for _, part := range e.mapParts(base.T) {
				e.compSort[part.name] = part.sort
				out = append(out, modEntry{comp: part.name, ref: base.S[0], text: text})
			}
			return out
		}
		specFail("modifies %s: not a slice or map", text)
	}
	if x.Op == "sel" && x.Args[0].Op == "call" && x.Args[0].Args[0].Op == "ident" && x.Args[0].Args[0].Name == "each" {
		// each(*T).field : the field of every object of type T (whole component)
		tt := env.resolveType(x.Args[0].Args[1].String())
		pt, ok := tt.Underlying().(*types.Pointer)
		if !ok {
			specFail("modifies %s: each() needs a pointer type", text)
		}
		st, ok := pt.Elem().Underlying().(*types.Struct)
		if !ok {
			specFail("modifies %s: each() needs a pointer to struct", text)
		}
		idx := fieldIndex(st, x.Name)
		if idx < 0 {
			specFail("modifies %s: no field %s", text, x.Name)
		}
		for _, sd := range slotsOf(st.Field(idx).Type()) {
			name := heapComp(pt.Elem(), "."+x.Name+sd.Path)
			e.compSort[name] = "(Array Int " + sd.Sort + ")"
			out = append(out, modEntry{comp: name, text: text})
		}
		return out
	}
	if x.Op == "sel" && x.Name == "_" {
		base := env.eval(x.Args[0])
		pt, ok := base.T.Underlying().(*types.Pointer)
		if !ok {
			specFail("modifies %s: not a pointer", text)
		}
		addLoc(&Loc{Kind: LHeap, Obj: pt.Elem(), Ref: base.S[0], T: pt.Elem()})
		return out
	}
	loc, ok := env.evalLV(x)
	if !ok {
		specFail("modifies %s: not a location", text)
	}
	if loc.Kind == LCell {
		specFail("modifies %s: local cell", text)
	}
	addLoc(loc)
	return out
}

func (e *Exec) constValue(t types.Type, c constant.Value) Value {
	switch {
	case c == nil:
		return zeroValue(t)
	case isBool(t):
		if constant.BoolVal(c) {
			return Value{T: t, S: []string{"true"}}
		}
		return Value{T: t, S: []string{"false"}}
	case isString(t):
		return Value{T: t, S: []string{e.strConst(constant.StringVal(c))}}
	case isFloat(t):
		f := new(big.Float).SetPrec(200)
		switch c.Kind() {
		case constant.Int, constant.Float:
			f.SetString(c.ExactString())
			if r, ok := new(big.Rat).SetString(c.ExactString()); ok {
				f.SetRat(r)
			}
		}
		return e.floatConst(t, f)
	case isInteger(t) || t == untypedInt:
		s := constant.ToInt(c).ExactString()
		if strings.HasPrefix(s, "-") {
			s = "(- " + s[1:] + ")"
		}
		return Value{T: t, S: []string{s}}
	}
	unsupportedf("constant of type %s", t)
	return Value{}
}

// coerceKey converts a ghost-map key; references (pointers, interface payloads) index int-keyed maps.
func (env *Env) coerceKey(v Value, kt types.Type) string {
	if isInteger(kt) {
		if len(v.S) == 0 && v.Loc != nil && v.Loc.Kind == LHeap {
			// the address of a field inside a heap object (e.g. a mutex embedded in a struct)
			t := fmt.Sprintf("(fieldaddr %d %s)", hashString(heapComp(v.Loc.Obj, v.Loc.Path))%1000000007, v.Loc.Ref)
			if env.e.quiet == 0 {
				env.e.axiom("(> " + t + " 0)")
			}
			return t
		}
		switch {
		case isInterface(v.T):
			return v.S[1]
		case isRefLike(v.T):
			return v.S[0]
		}
	}
	return env.coerce(v, kt).S[0]
}
