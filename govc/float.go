package main

import (
	"fmt"
	"go/types"
	"math/big"
	"strings"
)

// ---------------------------------------------------------------------------------------------
// XRR: extended rounded reals. A float is (k, v): k = 0 finite, 1 +inf, 2 -inf, 3 NaN; v its exact
// real value when finite. Rounding is the uninterpreted function rnd64 (rnd32 for float32
// conversions) constrained by *ground instances* of the standard lemmas of round-to-nearest:
//   sandwich  : x <= p ==> rnd(x) <= p   and  x >= p ==> rnd(x) >= p   for every representable p
//   monotone  : x1 <= x2 ==> rnd(x1) <= rnd(x2)
//   exact     : x integer, |x| <= 2^53 ==> rnd(x) = x
// These lemmas are the trusted base of the float model.
// ---------------------------------------------------------------------------------------------

type fpoint struct{ k, v string }

type floatCtx struct {
	points  []fpoint
	rounded []string    // x terms of rnd64 applications
	divs    [][3]string // (numerator, divisor, quotient) of the divisions seen so far
	muls    [][3]string // (factor, factor, product) of the products of two symbolic values seen so far
	argOf   map[string]string // name or term of a rnd64 application -> its argument
	cmpSeen map[string]bool
	r32     []string
	seenPt  map[string]bool
	seenR   map[string]bool
	relerr  bool
	inputs  []fpoint          // representable numbers coming from outside (parameters, heap loads, call results)
	intOf   map[string]string // v-term -> integer term I with: |I| <= 2^53 (and the same for its operands) ==> v == to_real(I)
	intCond map[string]string
}

func newFloatCtx() *floatCtx {
	return &floatCtx{seenPt: map[string]bool{}, seenR: map[string]bool{}, intOf: map[string]string{}, intCond: map[string]string{}}
}

const two53 = "9007199254740992.0"
const two24 = "16777216.0"

func (f *floatCtx) addPoint(e *Exec, k, v string) {
	if e.discovery {
		return
	}
	key := k + "|" + v
	if f.seenPt[key] || len(f.points) > 400 {
		return
	}
	f.seenPt[key] = true
	p := fpoint{k, v}
	f.points = append(f.points, p)
	for _, x := range f.rounded {
		f.sandwich(e, "rnd64", x, p)
	}
	for _, x := range f.r32 {
		f.sandwich32(e, x, p)
	}
}

func guardFin(k, body string) string {
	if k == "0" {
		return body
	}
	if strings.HasPrefix(k, "G:") {
		return "(=> " + k[2:] + " " + body + ")"
	}
	return "(=> (= " + k + " 0) " + body + ")"
}

func (f *floatCtx) sandwich(e *Exec, fn, x string, p fpoint) {
	r := "(" + fn + " " + x + ")"
	if r == p.v {
		return
	}
	e.axiom(guardFin(p.k, fmt.Sprintf("(and (=> (<= %s %s) (<= %s %s)) (=> (>= %s %s) (>= %s %s)))", x, p.v, r, p.v, x, p.v, r, p.v)))
}

func (f *floatCtx) sandwich32(e *Exec, x string, p fpoint) {
	r := "(rnd32 " + x + ")"
	// only float32-representable points: integers up to 2^24 in magnitude
	g := fmt.Sprintf("(and (is_int %s) (<= (- %s) %s) (<= %s %s))", p.v, two24, p.v, p.v, two24)
	body := fmt.Sprintf("(=> %s (and (=> (<= %s %s) (<= %s %s)) (=> (>= %s %s) (>= %s %s))))", g, x, p.v, r, p.v, x, p.v, r, p.v)
	e.axiom(guardFin(p.k, body))
}

// round registers the application rnd64(x) and returns its term.
func (f *floatCtx) round(e *Exec, x string) string {
	r := "(rnd64 " + x + ")"
	if e.discovery || f.seenR[x] {
		return r
	}
	f.seenR[x] = true
	for _, p := range f.points {
		f.sandwich(e, "rnd64", x, p)
	}
	if len(f.rounded) < 60 {
		for _, y := range f.rounded {
			e.axiom(fmt.Sprintf("(and (=> (<= %s %s) (<= (rnd64 %s) (rnd64 %s))) (=> (<= %s %s) (<= (rnd64 %s) (rnd64 %s))))", x, y, x, y, y, x, y, x))
		}
	}
	e.axiom(fmt.Sprintf("(=> (and (is_int %s) (<= (- %s) %s) (<= %s %s)) (= %s %s))", x, two53, x, x, two53, r, x))
	// coarse relative error (valid also for subnormals and ties): rnd(x) lies between x/2 and 2x
	e.axiom(fmt.Sprintf("(and (=> (>= %s 0.0) (and (<= %s (* 2.0 %s)) (>= %s (/ %s 2.0)))) (=> (<= %s 0.0) (and (>= %s (* 2.0 %s)) (<= %s (/ %s 2.0)))))", x, r, x, r, x, x, r, x, r, x))
	// relative error of round-to-nearest (linear in x): |rnd(x) - x| <= 2^-53 |x| + 2^-1075
	e.axiom(fmt.Sprintf("(and (<= (- %s %s) (+ (* EPS53 (absr %s)) TINY)) (<= (- %s %s) (+ (* EPS53 (absr %s)) TINY)))", r, x, x, x, r, x))
	f.rounded = append(f.rounded, x)
	return r
}

func (f *floatCtx) round32(e *Exec, x string) string {
	r := "(rnd32 " + x + ")"
	if e.discovery || f.seenR["32:"+x] {
		return r
	}
	f.seenR["32:"+x] = true
	for _, p := range f.points {
		f.sandwich32(e, x, p)
	}
	for _, y := range f.r32 {
		e.axiom(fmt.Sprintf("(and (=> (<= %s %s) (<= (rnd32 %s) (rnd32 %s))) (=> (<= %s %s) (<= (rnd32 %s) (rnd32 %s))))", x, y, x, y, y, x, y, x))
	}
	e.axiom(fmt.Sprintf("(=> (and (is_int %s) (<= (- %s) %s) (<= %s %s)) (= %s %s))", x, two24, x, x, two24, r, x))
	// relative error of rounding to float32 (normal range; 2^-149 absolute in the subnormal range)
	e.axiom(fmt.Sprintf("(=> (<= (absr %s) 100000000000000000000000000000000000000.0) (and (<= (- %s %s) (+ (* EPS24 (absr %s)) TINY32)) (<= (- %s %s) (+ (* EPS24 (absr %s)) TINY32))))", x, r, x, x, x, r, x))
	f.r32 = append(f.r32, x)
	return r
}

func fk(v Value) string { return v.S[0] }
func fv(v Value) string { return v.S[1] }

func fIsNaN(v Value) string { return "(= " + fk(v) + " 3)" }
func fIsFin(v Value) string { return "(= " + fk(v) + " 0)" }
func fIsInf(v Value) string { return "(or (= " + fk(v) + " 1) (= " + fk(v) + " 2))" }
func fNeg(v Value) string {
	return "(or (= " + fk(v) + " 2) (and (= " + fk(v) + " 0) (< " + fv(v) + " 0.0)))"
}
func fZero(v Value) string { return "(and (= " + fk(v) + " 0) (= " + fv(v) + " 0.0))" }

// nameReal gives a compound real term a short name so that lemma instances stay small.
func (e *Exec) nameReal(prefix, term string) string {
	if !strings.ContainsAny(term, " (") || e.quiet > 0 || e.discovery {
		return term
	}
	return e.define(prefix, "Real", term)
}

// finishRound returns the value for a finite-operand result with exact real x
func (e *Exec) floatRounded(t types.Type, x string, finc, nanc, pinf, ninf string, kindTerm string) Value {
	// the kind is an uninterpreted function of the operands (so equal operands give equal kinds),
	// constrained by the IEEE case table below
	k := e.define("fk", "Int", kindTerm)
	x = e.nameReal("fx", x)
	r := e.nameReal("fr", e.fl.round(e, x))
	if e.fl.argOf == nil {
		e.fl.argOf = map[string]string{}
		e.fl.cmpSeen = map[string]bool{}
	}
	e.fl.argOf[r] = x
	finc = e.defineBool(finc)
	nanc = e.defineBool(nanc)
	e.axiom(fmt.Sprintf("(and (<= 0 %s) (<= %s 3))", k, k))
	e.axiom(fmt.Sprintf("(=> %s (= %s 3))", nanc, k))
	e.axiom(fmt.Sprintf("(=> %s (= %s 1))", pinf, k))
	e.axiom(fmt.Sprintf("(=> %s (= %s 2))", ninf, k))
	e.axiom(fmt.Sprintf("(=> %s (and (=> (and (<= (- MAXF) %s) (<= %s MAXF)) (= %s 0)) (=> (> %s MAXF) (or (= %s 1) (and (= %s 0) (= %s MAXF)))) (=> (< %s (- MAXF)) (or (= %s 2) (and (= %s 0) (= %s (- MAXF)))))))",
		finc, x, x, k, x, k, k, r, x, k, k, r))
	e.fl.addPoint(e, k, r)
	return Value{T: t, S: []string{k, r}}
}

func (e *Exec) floatBin(op string, a, b Value, t types.Type) Value {
	if e.discovery {
		return Value{T: t, S: []string{"0", "0.0"}}
	}
	if e.quiet > 0 {
		// inside a quantifier no lemma instance can be emitted: the value is the same uninterpreted
		// term the code produces (equal operands give equal results by congruence)
		k := kindUF(op, a, b)
		switch op {
		case "+", "-":
			return Value{T: t, S: []string{k, "(rnd64 (" + op + " " + fv(a) + " " + fv(b) + "))"}}
		case "*":
			return Value{T: t, S: []string{k, "(rnd64 " + realMul(fv(a), fv(b)) + ")"}}
		case "/":
			return Value{T: t, S: []string{k, "(fv_div " + fk(a) + " " + fv(a) + " " + fk(b) + " " + fv(b) + ")"}}
		}
	}
	ak, av, bk, bv := fk(a), fv(a), fk(b), fv(b)
	anan, bnan := fIsNaN(a), fIsNaN(b)
	finc := "(and " + fIsFin(a) + " " + fIsFin(b) + ")"
	switch op {
	case "+", "-":
		b1, b2 := "1", "2"
		x := "(+ " + av + " " + bv + ")"
		if op == "-" {
			b1, b2 = "2", "1"
			x = "(- " + av + " " + bv + ")"
		}
		nanc := fmt.Sprintf("(or %s %s (and (= %s 1) (= %s %s)) (and (= %s 2) (= %s %s)))", anan, bnan, ak, bk, b2, ak, bk, b1)
		pinf := fmt.Sprintf("(and (not %s) (or (= %s 1) (= %s %s)))", nanc, ak, bk, b1)
		ninf := fmt.Sprintf("(and (not %s) (or (= %s 2) (= %s %s)))", nanc, ak, bk, b2)
		res := e.floatRounded(t, x, finc, nanc, pinf, ninf, kindUF(op, a, b))
		e.intLemma(op, a, b, res)
		return res
	case "*":
		x := e.nameReal("fx", realMul(av, bv))
		// products with a common non-negative (non-positive) factor are ordered like the other factors
		if !e.discovery && e.quiet == 0 && len(e.fl.muls) < 16 && !isRealLit(av) && !isRealLit(bv) {
			for _, m := range e.fl.muls {
				for _, pr := range [][4]string{{av, bv, m[0], m[1]}, {av, bv, m[1], m[0]}, {bv, av, m[0], m[1]}, {bv, av, m[1], m[0]}} {
					// pr: (f, g) of this product, (f2, g2) of the earlier one; common factor g == g2
					e.axiom(fmt.Sprintf("(=> (and (= %s %s) (>= %s 0.0)) (and (=> (<= %s %s) (<= %s %s)) (=> (<= %s %s) (<= %s %s))))", pr[1], pr[3], pr[1], pr[0], pr[2], x, m[2], pr[2], pr[0], m[2], x))
				}
			}
			e.fl.muls = append(e.fl.muls, [3]string{av, bv, x})
		}
		// valid facts of real arithmetic that spare the solver nonlinear reasoning
		for _, p := range [][2]string{{av, bv}, {bv, av}} {
			a, b := p[0], p[1]
			e.axiom(fmt.Sprintf("(=> (and (<= 0.0 %s) (<= %s 1.0) (>= %s 0.0)) (and (<= 0.0 %s) (<= %s %s)))", a, a, b, x, x, b))
			e.axiom(fmt.Sprintf("(=> (and (<= 0.0 %s) (<= %s 1.0) (<= %s 0.0)) (and (>= 0.0 %s) (>= %s %s)))", a, a, b, x, x, b))
		}
		for _, o := range []Value{a, b} {
			// o/2 is representable unless o is (near) subnormal
			g := fmt.Sprintf("G:(and (= %s 0) (or (= %s 0.0) (>= (absr %s) (/ 1.0 1000000000000000000000000000000000000000000000000000000000000000000000000000000000000000000000000000000000000000000000000000000000000000000000000000000000000000000000000000000000000000000000000000000000000000000000000000000000000000000000000000000000000000000000000000000000000000000000000000000000000.0))))", fk(o), fv(o), fv(o))
			e.fl.addPoint(e, g, e.nameReal("fh", "(/ "+fv(o)+" 2.0)"))
		}
		e.axiom(fmt.Sprintf("(=> (and (>= %s 0.0) (>= %s 0.0)) (>= %s 0.0))", av, bv, x))
		e.axiom(fmt.Sprintf("(=> (or (= %s 0.0) (= %s 0.0)) (= %s 0.0))", av, bv, x))
		nanc := fmt.Sprintf("(or %s %s (and %s %s) (and %s %s))", anan, bnan, fIsInf(a), fZero(b), fIsInf(b), fZero(a))
		infc := fmt.Sprintf("(and (not %s) (or %s %s))", nanc, fIsInf(a), fIsInf(b))
		sgn := fmt.Sprintf("(xor %s %s)", fNeg(a), fNeg(b))
		pinf := "(and " + infc + " (not " + sgn + "))"
		ninf := "(and " + infc + " " + sgn + ")"
		res := e.floatRounded(t, x, finc, nanc, pinf, ninf, kindUF(op, a, b))
		e.intLemma(op, a, b, res)
		return res
	case "/":
		// exact quotient only meaningful for a non-zero divisor
		q := e.nameReal("fx", realDiv(av, bv))
		// quotients by the same divisor are ordered like their numerators (ground instances, pairwise)
		if !e.discovery && e.quiet == 0 && len(e.fl.divs) < 24 {
			for _, d := range e.fl.divs {
				e.axiom(fmt.Sprintf("(=> (and (= %s %s) (> %s 0.0)) (and (=> (<= %s %s) (<= %s %s)) (=> (<= %s %s) (<= %s %s))))", bv, d[1], bv, av, d[0], q, d[2], d[0], av, d[2], q))
				e.axiom(fmt.Sprintf("(=> (and (= %s %s) (< %s 0.0)) (and (=> (<= %s %s) (>= %s %s)) (=> (<= %s %s) (>= %s %s))))", bv, d[1], bv, av, d[0], q, d[2], d[0], av, d[2], q))
			}
			e.fl.divs = append(e.fl.divs, [3]string{av, bv, q})
		}
		// valid facts of real arithmetic about quotients (spare the solver nonlinear reasoning)
		e.axiom(fmt.Sprintf("(=> (> %s 0.0) (and (=> (>= %s 0.0) (>= %s 0.0)) (=> (<= %s 0.0) (<= %s 0.0)) (=> (<= %s %s) (<= %s 1.0)) (=> (>= %s %s) (>= %s 1.0)) (=> (>= %s (- %s)) (>= %s (- 1.0)))))", bv, av, q, av, q, av, bv, q, av, bv, q, av, bv, q))
		e.axiom(fmt.Sprintf("(=> (< %s 0.0) (and (=> (>= %s 0.0) (<= %s 0.0)) (=> (<= %s 0.0) (>= %s 0.0)) (=> (>= %s %s) (<= %s 1.0)) (=> (<= %s %s) (>= %s 1.0))))", bv, av, q, av, q, av, bv, q, av, bv, q))
		nanc := fmt.Sprintf("(or %s %s (and %s %s) (and %s %s))", anan, bnan, fIsInf(a), fIsInf(b), fZero(a), fZero(b))
		sgn := fmt.Sprintf("(xor %s %s)", fNeg(a), fNeg(b))
		k := e.define("fk", "Int", kindUF(op, a, b))
		r := e.nameReal("fr", e.fl.round(e, q))
		res := e.define("fdiv", "Real", "(fv_div "+ak+" "+av+" "+bk+" "+bv+")")
		nanc = e.defineBool(nanc)
		e.axiom(fmt.Sprintf("(and (<= 0 %s) (<= %s 3))", k, k))
		e.axiom(fmt.Sprintf("(=> %s (= %s 3))", nanc, k))
		// inf / finite
		e.axiom(fmt.Sprintf("(=> (and (not %s) %s (not %s)) (= %s (ite %s 2 1)))", nanc, fIsInf(a), fZero(b), k, sgn))
		e.axiom(fmt.Sprintf("(=> (and (not %s) %s %s) (or (= %s 1) (= %s 2)))", nanc, fIsInf(a), fZero(b), k, k))
		// finite / inf = 0
		e.axiom(fmt.Sprintf("(=> (and %s %s) (and (= %s 0) (= %s 0.0)))", fIsFin(a), fIsInf(b), k, res))
		// finite nonzero / zero = +-inf (sign of zero not tracked)
		e.axiom(fmt.Sprintf("(=> (and %s (not %s) %s) (or (= %s 1) (= %s 2)))", fIsFin(a), fZero(a), fZero(b), k, k))
		// finite / finite nonzero
		fin2 := fmt.Sprintf("(and %s (not (= %s 0.0)))", finc, bv)
		e.axiom(fmt.Sprintf("(=> %s (and (=> (and (<= (- MAXF) %s) (<= %s MAXF)) (and (= %s 0) (= %s %s))) (=> (> %s MAXF) (or (= %s 1) (and (= %s 0) (= %s MAXF)))) (=> (< %s (- MAXF)) (or (= %s 2) (and (= %s 0) (= %s (- MAXF)))))))",
			fin2, q, q, k, res, r, q, k, k, res, q, k, k, res))
		e.fl.addPoint(e, k, res)
		return Value{T: t, S: []string{k, res}}
	}
	unsupportedf("float operator %s", op)
	return Value{}
}

// cmpHint: when two rounded values are compared, state the monotonicity of rounding for exactly that pair
// (the pairwise instances emitted at rounding time are capped).
func (e *Exec) cmpHint(a, b Value) {
	if e.discovery || e.quiet > 0 || e.fl.argOf == nil || len(a.S) < 2 || len(b.S) < 2 {
		return
	}
	x, ok1 := e.fl.argOf[fv(a)]
	y, ok2 := e.fl.argOf[fv(b)]
	if !ok1 || !ok2 || x == y {
		return
	}
	key := x + "|" + y
	if e.fl.cmpSeen[key] || e.fl.cmpSeen[y+"|"+x] {
		return
	}
	e.fl.cmpSeen[key] = true
	e.axiom(fmt.Sprintf("(and (=> (<= %s %s) (<= %s %s)) (=> (<= %s %s) (<= %s %s)))", x, y, fv(a), fv(b), y, x, fv(b), fv(a)))
}

func floatCmp(op string, a, b Value) string {
	ak, av, bk, bv := fk(a), fv(a), fk(b), fv(b)
	nonan := fmt.Sprintf("(and (not (= %s 3)) (not (= %s 3)))", ak, bk)
	bothfin := fmt.Sprintf("(and (= %s 0) (= %s 0))", ak, bk)
	switch op {
	case "<":
		return fmt.Sprintf("(and %s (or (and %s (< %s %s)) (and (= %s 2) (not (= %s 2))) (and (= %s 1) (not (= %s 1)))))", nonan, bothfin, av, bv, ak, bk, bk, ak)
	case "<=":
		return fmt.Sprintf("(and %s (or (and %s (<= %s %s)) (= %s 2) (= %s 1)))", nonan, bothfin, av, bv, ak, bk)
	case ">":
		return floatCmp("<", b, a)
	case ">=":
		return floatCmp("<=", b, a)
	case "==":
		return fmt.Sprintf("(and %s (or (and %s (= %s %s)) (and (= %s %s) (not (= %s 0)))))", nonan, bothfin, av, bv, ak, bk, ak)
	case "!=":
		return "(not " + floatCmp("==", a, b) + ")"
	}
	panic("floatCmp " + op)
}

func (e *Exec) floatNeg(a Value) Value {
	k := fmt.Sprintf("(ite (= %s 1) 2 (ite (= %s 2) 1 %s))", fk(a), fk(a), fk(a))
	v := "(- " + fv(a) + ")"
	e.fl.addPoint(e, fk(a), v)
	return Value{T: a.T, S: []string{k, v}}
}

func (e *Exec) floatConst(t types.Type, val *big.Float) Value {
	if val.IsInf() {
		if val.Sign() > 0 {
			return Value{T: t, S: []string{"1", "0.0"}}
		}
		return Value{T: t, S: []string{"2", "0.0"}}
	}
	// the constant is first rounded to the target type (Go does that at compile time)
	var rat *big.Rat
	if b, ok := t.Underlying().(*types.Basic); ok && b.Kind() == types.Float32 {
		f32, _ := val.Float32()
		rat, _ = new(big.Float).SetFloat64(float64(f32)).Rat(nil)
	} else {
		f64, _ := val.Float64()
		rat, _ = new(big.Float).SetFloat64(f64).Rat(nil)
	}
	term := ratTerm(rat)
	e.fl.addPoint(e, "0", term)
	return Value{T: t, S: []string{"0", term}}
}

func ratTerm(r *big.Rat) string {
	neg := r.Sign() < 0
	a := new(big.Rat).Abs(r)
	var s string
	if a.IsInt() {
		s = a.Num().String() + ".0"
	} else {
		s = "(/ " + a.Num().String() + ".0 " + a.Denom().String() + ".0)"
	}
	if neg {
		return "(- " + s + ")"
	}
	return s
}

// intToFloat: exact for |n| <= 2^53, rounded otherwise
func (e *Exec) intToFloat(t types.Type, n string) Value {
	x := "(to_real " + n + ")"
	if isNumeral(n) {
		e.fl.addPoint(e, "0", x)
		return Value{T: t, S: []string{"0", x}}
	}
	x = e.nameReal("fx", x)
	var r string
	if b, ok := t.Underlying().(*types.Basic); ok && b.Kind() == types.Float32 {
		r = e.nameReal("fr", e.fl.round32(e, x))
	} else {
		r = e.nameReal("fr", e.fl.round(e, x))
	}
	e.fl.addPoint(e, "0", r)
	if _, is32 := t.Underlying().(*types.Basic); is32 && t.Underlying().(*types.Basic).Kind() != types.Float32 {
		cond := fmt.Sprintf("(and (<= (- 9007199254740992) %s) (<= %s 9007199254740992))", n, n)
		e.axiom(fmt.Sprintf("(=> %s (= %s (to_real %s)))", cond, r, n))
		e.fl.intOf[r] = n
		e.fl.intCond[r] = cond
	}
	return Value{T: t, S: []string{"0", r}}
}

func isNumeral(s string) bool {
	if s == "" {
		return false
	}
	t := strings.TrimSuffix(strings.TrimPrefix(s, "(- "), ")")
	for _, c := range t {
		if c < '0' || c > '9' {
			return false
		}
	}
	return true
}

// floatToInt: truncation when finite and in range, otherwise an unconstrained integer
// (Go: implementation-defined).
func (e *Exec) floatToInt(a Value, bits int, unsigned bool) string {
	// the conversion is a (platform-defined, deterministic) function of the float: an uninterpreted
	// function that equals truncation whenever the value is finite and in range
	fn := fmt.Sprintf("f2i%d", bits)
	if unsigned {
		fn = fmt.Sprintf("f2u%d", bits)
	}
	r := "(" + fn + " " + fk(a) + " " + fv(a) + ")"
	lo, hi := "(- "+pow2(bits-1)+".0)", pow2(bits-1)+".0"
	if unsigned {
		lo, hi = "(- 1.0)", pow2(bits)+".0"
	}
	if e.quiet > 0 || e.discovery {
		return r
	}
	key := "f2i:" + r
	if e.fl.seenR[key] {
		return r
	}
	e.fl.seenR[key] = true
	cond := e.defineBool(fmt.Sprintf("(and %s (< %s %s) (< %s %s))", fIsFin(a), lo, fv(a), fv(a), hi))
	e.axiom(fmt.Sprintf("(=> %s (= %s (trunc %s)))", cond, r, fv(a)))
	// consequences of truncation stated explicitly (mixed int/real reasoning is slow otherwise)
	e.axiom(fmt.Sprintf("(=> (and %s (>= %s 0.0)) (and (<= (to_real %s) %s) (< %s (+ (to_real %s) 1.0)) (>= %s 0)))", cond, fv(a), r, fv(a), fv(a), r, r))
	e.axiom(fmt.Sprintf("(=> (and %s (<= %s 0.0)) (and (>= (to_real %s) %s) (> %s (- (to_real %s) 1.0)) (<= %s 0)))", cond, fv(a), r, fv(a), fv(a), r, r))
	return r
}

// ---- math.* built-ins ------------------------------------------------------------------------

func (e *Exec) mathCall(name string, args []Value, t types.Type) (Value, bool) {
	switch name {
	case "math.Round", "math.Floor", "math.Ceil", "math.Trunc":
		a := args[0]
		var body string
		switch name {
		case "math.Round":
			body = fmt.Sprintf("(ite (>= %s 0.0) (to_real (to_int (+ %s 0.5))) (- (to_real (to_int (+ (- %s) 0.5)))))", fv(a), fv(a), fv(a))
		case "math.Floor":
			body = fmt.Sprintf("(to_real (to_int %s))", fv(a))
		case "math.Ceil":
			body = fmt.Sprintf("(- (to_real (to_int (- %s))))", fv(a))
		case "math.Trunc":
			body = fmt.Sprintf("(to_real (trunc %s))", fv(a))
		}
		v := e.define("fround", "Real", body)
		// an integer-valued argument is its own rounding (spares the solver to_int reasoning)
		e.axiom(fmt.Sprintf("(=> (is_int %s) (= %s %s))", fv(a), v, fv(a)))
		e.fl.addPoint(e, fk(a), v)
		return Value{T: t, S: []string{fk(a), v}}, true
	case "math.Abs":
		a := args[0]
		k := fmt.Sprintf("(ite (= %s 2) 1 %s)", fk(a), fk(a))
		v := e.define("fabs", "Real", "(absr "+fv(a)+")")
		e.fl.addPoint(e, fk(a), v)
		return Value{T: t, S: []string{k, v}}, true
	case "math.Min", "math.Max":
		a, b := args[0], args[1]
		cmp := floatCmp("<=", a, b)
		if name == "math.Max" {
			cmp = floatCmp(">=", a, b)
		}
		anynan := "(or " + fIsNaN(a) + " " + fIsNaN(b) + ")"
		k := e.define("fmk", "Int", fmt.Sprintf("(ite %s 3 (ite %s %s %s))", anynan, cmp, fk(a), fk(b)))
		v := e.define("fmv", "Real", fmt.Sprintf("(ite %s %s %s)", cmp, fv(a), fv(b)))
		e.fl.addPoint(e, k, v)
		return Value{T: t, S: []string{k, v}}, true
	case "math.IsNaN":
		return Value{T: t, S: []string{fIsNaN(args[0])}}, true
	case "math.IsInf":
		a := args[0]
		sign := args[1].S[0]
		return Value{T: t, S: []string{fmt.Sprintf("(or (and (>= %s 0) (= %s 1)) (and (<= %s 0) (= %s 2)))", sign, fk(a), sign, fk(a))}}, true
	case "math.Inf":
		sign := args[0].S[0]
		return Value{T: t, S: []string{fmt.Sprintf("(ite (>= %s 0) 1 2)", sign), "0.0"}}, true
	case "math.NaN":
		return Value{T: t, S: []string{"3", "0.0"}}, true
	}
	return Value{}, false
}

func (e *Exec) defineBool(term string) string {
	if !strings.ContainsAny(term, " (") || e.quiet > 0 || e.discovery {
		return term
	}
	return e.define("fb", "Bool", term)
}

// intLemma: integer-valued operands give an exact integer-valued result (no is_int reasoning needed).
func (e *Exec) intLemma(op string, a, b, res Value) {
	if e.discovery || e.quiet > 0 {
		return
	}
	ia, oka := e.fl.intOf[fv(a)]
	ib, okb := e.fl.intOf[fv(b)]
	if !oka || !okb {
		return
	}
	i := "(" + op + " " + ia + " " + ib + ")"
	cond := fmt.Sprintf("(and %s %s (= %s 0) (= %s 0) (<= (- 9007199254740992) %s) (<= %s 9007199254740992))", e.fl.intCond[fv(a)], e.fl.intCond[fv(b)], fk(a), fk(b), i, i)
	cond = e.defineBool(cond)
	e.axiom(fmt.Sprintf("(=> %s (and (= %s 0) (= %s (to_real %s))))", cond, fk(res), fv(res), i))
	e.fl.intOf[fv(res)] = i
	e.fl.intCond[fv(res)] = cond
}

// addInput registers an input float and states the separation of distinct doubles:
// p != q ==> |p - q| >= 2^-53 * |p|  (also true in the subnormal range).
func (f *floatCtx) addInput(e *Exec, k, v string) {
	if e.discovery || e.quiet > 0 {
		return
	}
	for _, q := range f.inputs {
		if q.v == v {
			return
		}
	}
	if len(f.inputs) < 12 {
		for _, q := range f.inputs {
			e.axiom(fmt.Sprintf("(=> (and (= %s 0) (= %s 0)) (or (= %s %s) (and (>= (absr (- %s %s)) (* EPS53 (absr %s))) (>= (absr (- %s %s)) (* EPS53 (absr %s))))))", k, q.k, v, q.v, v, q.v, v, v, q.v, q.v))
		}
	}
	f.inputs = append(f.inputs, fpoint{k, v})
}

// isRealLit: a numeric literal (linear arithmetic stays interpreted)
func isRealLit(t string) bool {
	u := strings.TrimSuffix(strings.TrimPrefix(t, "(- "), ")")
	if u == "" {
		return false
	}
	for _, c := range u {
		if !(c >= '0' && c <= '9') && c != '.' {
			return false
		}
	}
	return true
}

// realMul / realDiv: products and quotients of two symbolic reals are kept uninterpreted (rmul, rdiv)
// and constrained by the sign/bound facts emitted at the use site; nonlinear real arithmetic made the
// solvers time out on goals that only need congruence. Products with a literal stay linear.
func realMul(a, b string) string { return "(* " + a + " " + b + ")" }

func realDiv(a, b string) string { return "(/ " + a + " " + b + ")" }

func kindUF(op string, a, b Value) string {
	name := map[string]string{"+": "fk_add", "-": "fk_sub", "*": "fk_mul", "/": "fk_div"}[op]
	return "(" + name + " " + fk(a) + " " + fv(a) + " " + fk(b) + " " + fv(b) + ")"
}
