package main

import "golang.org/x/tools/go/ssa"

func verifyLemma(p *Program, cs *Contracts, fns map[string]*ssa.Function, lm *Lemma, prop string) ([]*Obligation, string) {
	return nil, "two-run lemmas not implemented yet"
}
