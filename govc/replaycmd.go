package main

import (
	"encoding/json"
	"fmt"
	"os"
	"os/exec"
	"strings"
)

// cmdReplay re-demonstrates a violation from its replay file: a recipe is run again on the real code, a generic
// replay test is run again, and for an obligation without a concrete input the stored query is solved again.
// Exit 1 when the violation shows again, 0 when it does not, 2 when the file cannot be used.
func cmdReplay(args []string) int {
	if len(args) < 1 {
		fmt.Println("usage: govc replay <replay file>")
		return 2
	}
	b, err := os.ReadFile(args[0])
	if err != nil {
		fmt.Println("replay:", err)
		return 2
	}
	var m map[string]interface{}
	if err := json.Unmarshal(b, &m); err != nil {
		fmt.Println("replay:", err)
		return 2
	}
	str := func(k string) string { s, _ := m[k].(string); return s }
	root := verifRoot()
	if name := str("recipe"); name != "" {
		for _, r := range loadRecipes(root) {
			if r.Name == name {
				ok, tr := runRecipe(root, "/repo", r)
				fmt.Println(tr)
				if !ok && strings.Contains(tr, "VIOLATED") {
					fmt.Printf("VIOLATION property=%s replay=%s reproduced on the real code by recipe %s\n", str("property"), args[0], name)
					return 1
				}
				fmt.Println("not reproduced")
				return 0
			}
		}
		fmt.Println("replay: unknown recipe", name)
		return 2
	}
	fmt.Printf("obligation: %s\nclause: %s\nverdict when reported: %s (%s)\n", str("obligation"), str("clause"), str("verdict"), str("solver"))
	if cmdline := str("replay_cmd"); cmdline != "" {
		fmt.Println("replay test:", str("replay_test"))
		c := exec.Command("sh", "-c", cmdline)
		c.Env = append(os.Environ(), "GOFLAGS=-mod=mod", "GOPROXY=off", "GOSUMDB=off", "GOTOOLCHAIN=local", "CGO_ENABLED=0")
		out, _ := c.CombinedOutput()
		var keep []string
		for _, l := range strings.Split(string(out), "\n") {
			if strings.HasPrefix(l, "REPLAY-") {
				keep = append(keep, l)
			}
		}
		now := strings.Join(keep, "\n")
		fmt.Println(str("replay_transcript"))
		fmt.Println("now:\n" + now)
		was, _ := m["reproduced_on_real_code"].(bool)
		same := true
		for _, l := range keep {
			if !strings.Contains(str("replay_transcript"), l) {
				same = false
			}
		}
		if was && same && len(keep) > 0 {
			fmt.Printf("VIOLATION property=%s replay=%s the real function still returns the counterexample's results\n", str("property"), args[0])
			return 1
		}
		fmt.Println("not reproduced")
		return 0
	}
	if f := str("smt_file"); f != "" {
		if _, err := os.Stat(f); err == nil {
			out, _ := exec.Command("z3-new", "-T:60", f).CombinedOutput()
			first := strings.TrimSpace(strings.SplitN(string(out), "\n", 2)[0])
			fmt.Println("solving the stored query again:", first)
			if first != "unsat" {
				fmt.Printf("VIOLATION property=%s replay=%s obligation still not discharged no-failing-input-found\n", str("property"), args[0])
				return 1
			}
			return 0
		}
	}
	fmt.Println(str("solver_output"))
	fmt.Println(str("note"))
	return 1
}
