package main

import (
	"fmt"
	"go/constant"
	"go/types"
	"sort"
	"strings"

	"golang.org/x/tools/go/ssa"
)

// cmdGenGetters prints contracts for module functions that have none and whose body only reads
// fields of its parameters and returns one value ("trivial getters"): `ensures result == <path>`,
// `modifies nothing`. The output is pasted into the package's contract file; the contracts are then
// verified like any other (they are not trusted).
func cmdGenGetters(args []string) int {
	p, err := loadProgram("/repo")
	if err != nil {
		fmt.Println(err)
		return 2
	}
	cs, err := loadContracts(p)
	if err != nil {
		fmt.Println(err)
		return 2
	}
	fns := p.allFunctions()
	byPkg := map[string][]string{}
	for _, k := range sortedKeys(fns) {
		fn := fns[k]
		if cs.ByKey[k] != nil || fn.Parent() != nil || fn.Pkg == nil || fn.Synthetic != "" || len(fn.Blocks) != 1 {
			continue
		}
		if strings.HasSuffix(p.Fset.Position(fn.Pos()).Filename, "_test.go") || strings.Contains(p.Fset.Position(fn.Pos()).Filename, "_verif.go") {
			continue
		}
		if len(args) > 0 && !strings.Contains(k, args[0]) {
			continue
		}
		expr, ok := getterExpr(fn)
		if !ok {
			continue
		}
		name := fn.Name()
		if recv := fn.Signature.Recv(); recv != nil {
			t := recv.Type()
			star := ""
			if pt, ok := t.(*types.Pointer); ok {
				star, t = "*", pt.Elem()
			}
			if nt, ok := t.(*types.Named); ok {
				name = "(" + star + nt.Obj().Name() + ")." + name
			}
		}
		byPkg[fn.Pkg.Pkg.Path()] = append(byPkg[fn.Pkg.Pkg.Path()], fmt.Sprintf("//@ func %s\n//@   ensures result == %s\n//@   modifies nothing", name, expr))
	}
	var pkgs []string
	for k := range byPkg {
		pkgs = append(pkgs, k)
	}
	sort.Strings(pkgs)
	for _, k := range pkgs {
		fmt.Printf("// ==== %s\n", k)
		for _, l := range byPkg[k] {
			fmt.Println(l)
		}
	}
	return 0
}

func getterExpr(fn *ssa.Function) (string, bool) {
	if fn.Signature.Results().Len() != 1 {
		return "", false
	}
	stored := map[*ssa.Alloc]ssa.Value{}
	var ret *ssa.Return
	for _, ins := range fn.Blocks[0].Instrs {
		switch x := ins.(type) {
		case *ssa.DebugRef, *ssa.FieldAddr, *ssa.Field, *ssa.Alloc, *ssa.RunDefers:
		case *ssa.Call:
			if b, ok := x.Call.Value.(*ssa.Builtin); !ok || b.Name() != "ssa:deferstack" {
				return "", false
			}
		case *ssa.UnOp:
			if x.Op.String() != "*" {
				return "", false
			}
		case *ssa.Store:
			a, ok := x.Addr.(*ssa.Alloc)
			if !ok || a.Heap {
				return "", false
			}
			if _, dup := stored[a]; dup {
				return "", false
			}
			stored[a] = x.Val
		case *ssa.Return:
			ret = x
		default:
			return "", false
		}
	}
	if ret == nil || len(ret.Results) != 1 {
		return "", false
	}
	var ex func(v ssa.Value) (string, bool)
	ex = func(v ssa.Value) (string, bool) {
		switch x := v.(type) {
		case *ssa.Parameter:
			return x.Name(), true
		case *ssa.Const:
			if x.Value == nil {
				return "nil", types.IsInterface(x.Type()) || isPointer(x.Type())
			}
			switch x.Value.Kind() {
			case constant.Bool, constant.Int:
				return x.Value.ExactString(), true
			case constant.String:
				return x.Value.ExactString(), true
			}
			return "", false
		case *ssa.FieldAddr:
			b, ok := ex(x.X)
			if !ok {
				return "", false
			}
			st := x.X.Type().Underlying().(*types.Pointer).Elem().Underlying().(*types.Struct)
			return b + "." + st.Field(x.Field).Name(), true
		case *ssa.Field:
			b, ok := ex(x.X)
			if !ok {
				return "", false
			}
			st := x.X.Type().Underlying().(*types.Struct)
			return b + "." + st.Field(x.Field).Name(), true
		case *ssa.UnOp:
			switch a := x.X.(type) {
			case *ssa.Alloc:
				if sv, ok := stored[a]; ok {
					return ex(sv)
				}
				return "", false
			case *ssa.FieldAddr:
				return ex(a)
			}
			b, ok := ex(x.X)
			return "*" + b, ok
		}
		return "", false
	}
	return ex(ret.Results[0])
}

// cmdGenParams prints, for every contract of a module function that has no "params" line yet,
// "<file>:<line>:(recv, p1, p2...)" - the names the source currently uses. A script pastes them into the
// contract files, which makes the contracts independent of later renames of receivers and parameters.
func cmdGenParams(args []string) int {
	p, err := loadProgram("/repo")
	if err != nil {
		fmt.Println(err)
		return 2
	}
	cs, err := loadContracts(p)
	if err != nil {
		fmt.Println(err)
		return 2
	}
	fns := p.allFunctions()
	for _, k := range sortedKeys(cs.ByKey) {
		c := cs.ByKey[k]
		if (c.Extern && !c.Opaque) || c.Iface || len(c.ParamNames) > 0 {
			continue
		}
		fn := fns[strings.TrimSuffix(k, "#impl")]
		if fn == nil || len(fn.Params) == 0 {
			continue
		}
		var names []string
		ok := true
		for _, pr := range fn.Params {
			if pr.Name() == "" || pr.Name() == "_" {
				ok = false
			}
			names = append(names, pr.Name())
		}
		if !ok {
			continue
		}
		fmt.Printf("%s:%d:(%s)\n", c.File, c.Line, strings.Join(names, ", "))
	}
	return 0
}
