package main

import (
	"fmt"
	"go/token"
	"go/types"
	"os"
	"path/filepath"
	"sort"
	"strings"

	"golang.org/x/tools/go/packages"
	"golang.org/x/tools/go/ssa"
	"golang.org/x/tools/go/ssa/ssautil"
)

// gosensorsStub replaces the cgo package github.com/md14454/gosensors by a pure-Go,
// type-only stand-in so that internal/hwmon and internal load without libsensors headers.
// No function of this package is ever put under contract.
// gosensorsStubFrom derives the stand-in mechanically from the real source: type and constant
// declarations are kept (C constants become consecutive integers, C pointer fields become
// uintptr), every function body is replaced by a zero-value return.
func gosensorsStubFrom(src string) string {
	var out []string
	out = append(out, "package gosensors", "")
	lines := strings.Split(src, "\n")
	n := 0
	skipBody := false
	inImport := false
	for _, ln := range lines {
		t := strings.TrimSpace(ln)
		if skipBody {
			if ln == "}" {
				skipBody = false
			}
			continue
		}
		if strings.HasPrefix(t, "package ") || strings.HasPrefix(t, "//") || t == `import "C"` {
			continue
		}
		if strings.HasPrefix(t, "import (") {
			inImport = true
			continue
		}
		if inImport {
			if t == ")" {
				inImport = false
			}
			continue
		}
		if strings.HasPrefix(ln, "func ") {
			// keep signature, replace body
			sig := strings.TrimSuffix(strings.TrimSpace(ln), "{")
			ret := ""
			switch {
			case strings.HasSuffix(strings.TrimSpace(sig), "float64"):
				ret = "return 0"
			case strings.HasSuffix(strings.TrimSpace(sig), "string"):
				ret = `return ""`
			case strings.HasSuffix(strings.TrimSpace(sig), "]SubFeature"), strings.HasSuffix(strings.TrimSpace(sig), "]Feature"), strings.HasSuffix(strings.TrimSpace(sig), "]Chip"):
				ret = "return nil"
			}
			out = append(out, sig+"{ "+ret+" }")
			skipBody = true
			continue
		}
		if i := strings.Index(ln, "= C."); i >= 0 {
			n++
			ln = ln[:i] + fmt.Sprintf("= %d", n)
		}
		if i := strings.Index(ln, "*C."); i >= 0 {
			ln = ln[:i] + "uintptr"
		}
		out = append(out, ln)
	}
	return strings.Join(out, "\n") + "\n"
}

const repoModule = "github.com/markusressel/fan2go"

type Program struct {
	Fset  *token.FileSet
	Pkgs  []*packages.Package
	SSA   *ssa.Program
	ByPkg map[string]*ssa.Package // by import path
	Repo  string
}

func gosensorsStub() string {
	b, err := os.ReadFile(gosensorsFile())
	if err != nil {
		panic(err)
	}
	return gosensorsStubFrom(string(b))
}

func gosensorsFile() string {
	gomod := os.Getenv("GOMODCACHE")
	if gomod == "" {
		home, _ := os.UserHomeDir()
		gp := os.Getenv("GOPATH")
		if gp == "" {
			gp = filepath.Join(home, "go")
		}
		gomod = filepath.Join(gp, "pkg", "mod")
	}
	return filepath.Join(gomod, "github.com/md14454/gosensors@v0.0.0-20180726083412-bded752ab001", "gosensors.go")
}

func loadProgram(repo string) (*Program, error) {
	env := append(os.Environ(), "CGO_ENABLED=0", "GOFLAGS=-mod=mod", "GOPROXY=off", "GOSUMDB=off", "GOTOOLCHAIN=local")
	cfg := &packages.Config{
		Mode: packages.NeedName | packages.NeedFiles | packages.NeedCompiledGoFiles | packages.NeedImports |
			packages.NeedDeps | packages.NeedTypes | packages.NeedSyntax | packages.NeedTypesInfo | packages.NeedTypesSizes | packages.NeedModule,
		Dir:        repo,
		Env:        env,
		BuildFlags: []string{"-tags=verif"},
		Overlay:    map[string][]byte{gosensorsFile(): []byte(gosensorsStub())},
	}
	pkgs, err := packages.Load(cfg, "./internal/...", "./cmd/...")
	if err != nil {
		return nil, err
	}
	nerr := 0
	packages.Visit(pkgs, nil, func(p *packages.Package) {
		for _, e := range p.Errors {
			if strings.HasPrefix(p.PkgPath, repoModule) {
				fmt.Fprintf(os.Stderr, "load error %s: %v\n", p.PkgPath, e)
				nerr++
			}
		}
	})
	if nerr > 0 {
		return nil, fmt.Errorf("%d load errors in module packages", nerr)
	}
	prog, spkgs := ssautil.Packages(pkgs, ssa.NaiveForm|ssa.InstantiateGenerics)
	for _, sp := range spkgs {
		if sp != nil {
			sp.Build()
		}
	}
	p := &Program{Fset: prog.Fset, Pkgs: pkgs, SSA: prog, ByPkg: map[string]*ssa.Package{}, Repo: repo}
	for i, sp := range spkgs {
		if sp != nil {
			p.ByPkg[pkgs[i].PkgPath] = sp
		}
	}
	// also register dependency packages of the module reached only through imports
	for _, sp := range prog.AllPackages() {
		if _, ok := p.ByPkg[sp.Pkg.Path()]; !ok {
			p.ByPkg[sp.Pkg.Path()] = sp
		}
	}
	return p, nil
}

// FuncKey returns the canonical contract key of an SSA function:
//
//	pkgpath.Name            for package-level functions
//	pkgpath.(*T).Name / pkgpath.(T).Name  for methods
//	parentkey$N             for anonymous functions
func FuncKey(fn *ssa.Function) string {
	if fn == nil {
		return "<nil>"
	}
	if fn.Parent() != nil {
		// anonymous: name is like Parent$1
		nm := fn.Name()
		if par := fn.Parent(); par.Parent() == nil && par.Name() == "init" && par.Synthetic != "" && par.Prog != nil {
			// literal in a package-level initialiser: key by file and ordinal within that file, so that
			// adding another file with such literals does not renumber it
			file := filepath.Base(par.Prog.Fset.Position(fn.Pos()).Filename)
			k := 0
			for _, af := range par.AnonFuncs {
				if filepath.Base(par.Prog.Fset.Position(af.Pos()).Filename) == file {
					k++
				}
				if af == fn {
					break
				}
			}
			return FuncKey(par) + "$" + file + fmt.Sprintf("$%d", k)
		}
		if i := strings.LastIndex(nm, "$"); i >= 0 {
			return FuncKey(fn.Parent()) + nm[i:]
		}
		return FuncKey(fn.Parent()) + "$" + nm
	}
	orig := fn
	targs := ""
	if fn.Origin() != nil {
		orig = fn.Origin()
		var ts []string
		for _, t := range fn.TypeArgs() {
			ts = append(ts, types.TypeString(t, func(p *types.Package) string { return p.Name() }))
		}
		targs = "[" + strings.Join(ts, ",") + "]"
	}
	pkgPath := ""
	if orig.Pkg != nil {
		pkgPath = orig.Pkg.Pkg.Path()
	} else if orig.Object() != nil && orig.Object().Pkg() != nil {
		pkgPath = orig.Object().Pkg().Path()
	}
	if recv := orig.Signature.Recv(); recv != nil {
		t := recv.Type()
		star := ""
		if pt, ok := t.(*types.Pointer); ok {
			star = "*"
			t = pt.Elem()
		}
		tn := ""
		if nt, ok := t.(*types.Named); ok {
			tn = nt.Obj().Name()
			if nt.Obj().Pkg() != nil {
				pkgPath = nt.Obj().Pkg().Path()
			}
		} else {
			tn = t.String()
		}
		return fmt.Sprintf("%s.(%s%s).%s", pkgPath, star, tn, orig.Name()) + targs
	}
	return pkgPath + "." + orig.Name() + targs
}

// allFunctions returns every function (incl. methods and anonymous functions) of the program.
func (p *Program) allFunctions() map[string]*ssa.Function {
	out := map[string]*ssa.Function{}
	var visit func(fn *ssa.Function)
	visit = func(fn *ssa.Function) {
		if fn == nil || fn.Blocks == nil {
			return
		}
		k := FuncKey(fn)
		if _, ok := out[k]; ok {
			return
		}
		out[k] = fn
		for _, af := range fn.AnonFuncs {
			visit(af)
		}
		// instantiated generics reached from here
		for _, b := range fn.Blocks {
			for _, ins := range b.Instrs {
				if c, ok := ins.(ssa.CallInstruction); ok {
					if callee := c.Common().StaticCallee(); callee != nil && callee.Origin() != nil && inModule(callee) {
						visit(callee)
					}
				}
			}
		}
	}
	for path, sp := range p.ByPkg {
		if !strings.HasPrefix(path, repoModule) {
			continue
		}
		for _, m := range sp.Members {
			switch m := m.(type) {
			case *ssa.Function:
				if m.TypeParams().Len() > 0 {
					continue
				}
				visit(m)
			case *ssa.Type:
				for _, t := range []types.Type{m.Type(), types.NewPointer(m.Type())} {
					ms := p.SSA.MethodSets.MethodSet(t)
					for i := 0; i < ms.Len(); i++ {
						fn := p.SSA.MethodValue(ms.At(i))
						if fn != nil && fn.Synthetic == "" {
							visit(fn)
						}
					}
				}
			}
		}
	}
	return out
}

func inModule(fn *ssa.Function) bool {
	o := fn
	if fn.Origin() != nil {
		o = fn.Origin()
	}
	for o.Parent() != nil {
		o = o.Parent()
	}
	return o.Pkg != nil && strings.HasPrefix(o.Pkg.Pkg.Path(), repoModule)
}

func sortedKeys[V any](m map[string]V) []string {
	ks := make([]string, 0, len(m))
	for k := range m {
		ks = append(ks, k)
	}
	sort.Strings(ks)
	return ks
}
