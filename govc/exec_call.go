package main

import (
	"fmt"
	"go/constant"
	"go/types"
	"runtime"
	"sort"
	"strings"

	"golang.org/x/tools/go/ssa"
)

type missingContract struct{ key, from string }

// doCall executes a call instruction under an additional guard.
func (e *Exec) doCall(ins ssa.CallInstruction, guard string) Value {
	c := ins.Common()
	var args []Value
	if c.IsInvoke() {
		recv := e.val(c.Value)
		for _, a := range c.Args {
			args = append(args, e.val(a))
		}
		return e.invoke(c, recv, args, guard)
	}
	if b, ok := c.Value.(*ssa.Builtin); ok {
		for _, a := range c.Args {
			args = append(args, e.val(a))
		}
		return e.builtin(b, c, args, guard)
	}
	callee := c.StaticCallee()
	if callee == nil {
		// dynamic call through a function value
		fv := e.val(c.Value)
		for _, a := range c.Args {
			args = append(args, e.val(a))
		}
		if fv.Fn != nil {
			return e.callFunction(fv.Fn.Fn, fv.Fn.Bindings, args, guard)
		}
		key := typeKeyFull(c.Value.Type())
		con := e.CS.ByKey[key]
		if con == nil {
			// a call through a function value whose target is not known here and whose type has no contract:
			// weakest contract (anything may change, anything is returned)
			con = e.unknownExtern(key)
		}
		return e.applyContract(con, nil, c.Signature(), args, guard, "")
	}
	var bindings []Value
	if mc, ok := c.Value.(*ssa.MakeClosure); ok {
		for _, b := range mc.Bindings {
			bindings = append(bindings, e.val(b))
		}
	}
	for _, a := range c.Args {
		args = append(args, e.val(a))
	}
	if r, ok := e.stringModelCall(callee, c); ok {
		return r
	}
	return e.callFunction(callee, bindings, args, guard)
}

// recoverVarargs returns the values the compiler packed into a variadic argument (slice of a fresh array
// whose elements are stored exactly once each at constant indices).
func recoverVarargs(v ssa.Value) ([]ssa.Value, bool) {
	if cst, ok := v.(*ssa.Const); ok && cst.Value == nil {
		return nil, true // no variadic arguments
	}
	sl, ok := v.(*ssa.Slice)
	if !ok || sl.Low != nil || sl.High != nil || sl.Max != nil {
		return nil, false
	}
	al, ok := sl.X.(*ssa.Alloc)
	if !ok || al.Referrers() == nil {
		return nil, false
	}
	at, ok := al.Type().(*types.Pointer).Elem().Underlying().(*types.Array)
	if !ok {
		return nil, false
	}
	out := make([]ssa.Value, at.Len())
	for _, r := range *al.Referrers() {
		switch r := r.(type) {
		case *ssa.Slice, *ssa.DebugRef:
		case *ssa.IndexAddr:
			ic, ok := r.Index.(*ssa.Const)
			if !ok || r.Referrers() == nil {
				return nil, false
			}
			i := int(ic.Int64())
			for _, rr := range *r.Referrers() {
				st, ok := rr.(*ssa.Store)
				if !ok || st.Addr != ssa.Value(r) || i < 0 || i >= len(out) || out[i] != nil {
					return nil, false
				}
				val := st.Val
				if mi, ok := val.(*ssa.MakeInterface); ok {
					val = mi.X
				}
				out[i] = val
			}
		default:
			return nil, false
		}
	}
	for _, o := range out {
		if o == nil {
			return nil, false
		}
	}
	return out, true
}

// stringModelCall gives fmt.Sprintf (constant format, verbs %d %s %v on integers and strings) and
// path.Join / filepath.Join (string arguments) a functional model: the formatted string is the
// concatenation of its pieces, a joined path is pathjoin(a, b) folded from the left. Anything else
// falls back to the assumed contract of the function.
func (e *Exec) stringModelCall(callee *ssa.Function, c *ssa.CallCommon) (Value, bool) {
	if callee == nil || callee.Pkg == nil {
		return Value{}, false
	}
	name := callee.Pkg.Pkg.Path() + "." + callee.Name()
	switch name {
	case "fmt.Sprintf":
		if len(c.Args) != 2 {
			return Value{}, false
		}
		fc, ok := c.Args[0].(*ssa.Const)
		if !ok || fc.Value == nil || fc.Value.Kind() != constant.String {
			return Value{}, false
		}
		vs, ok := recoverVarargs(c.Args[1])
		if !ok {
			return Value{}, false
		}
		format := constant.StringVal(fc.Value)
		var parts []string
		lit := ""
		ai := 0
		for i := 0; i < len(format); i++ {
			if format[i] != '%' {
				lit += string(format[i])
				continue
			}
			if i+1 >= len(format) {
				return Value{}, false
			}
			i++
			switch format[i] {
			case '%':
				lit += "%"
			case 'd', 's', 'v':
				if ai >= len(vs) {
					return Value{}, false
				}
				a := vs[ai]
				ai++
				var piece string
				switch {
				case isInteger(a.Type()) && format[i] != 's':
					piece = "(strfromint " + e.val(a).S[0] + ")"
				case isString(a.Type()) && format[i] != 'd':
					piece = e.val(a).S[0]
				default:
					return Value{}, false
				}
				if lit != "" {
					parts = append(parts, e.strConst(lit))
					lit = ""
				}
				parts = append(parts, piece)
			default:
				return Value{}, false
			}
		}
		if ai != len(vs) {
			return Value{}, false
		}
		if lit != "" || len(parts) == 0 {
			parts = append(parts, e.strConst(lit))
		}
		e.ensureStrDecls()
		r := parts[0]
		for _, p := range parts[1:] {
			r = "(strcat " + r + " " + p + ")"
		}
		return Value{T: tString, S: []string{r}}, true
	case "path.Join", "path/filepath.Join":
		if len(c.Args) != 1 {
			return Value{}, false
		}
		vs, ok := recoverVarargs(c.Args[0])
		if !ok || len(vs) < 2 {
			return Value{}, false
		}
		e.ensureStrDecls()
		r := e.val(vs[0]).S[0]
		for _, v := range vs[1:] {
			r = "(pathjoin " + r + " " + e.val(v).S[0] + ")"
		}
		return Value{T: tString, S: []string{r}}, true
	}
	return Value{}, false
}

func typeKeyFull(t types.Type) string {
	t = types.Unalias(t)
	if n, ok := t.(*types.Named); ok && n.Obj().Pkg() != nil {
		return n.Obj().Pkg().Path() + "." + n.Obj().Name()
	}
	return types.TypeString(t, nil)
}

func (e *Exec) callFunction(callee *ssa.Function, bindings, args []Value, guard string) Value {
	key := FuncKey(callee)
	if strings.HasPrefix(key, "math.") {
		if r, ok := e.mathCall(key, args, callee.Signature.Results().At(0).Type()); ok {
			return r
		}
	}
	con := e.CS.ByKey[key]
	if con == nil {
		if dc := e.defaultExtern(callee, key); dc != nil {
			con = dc
		} else if inModule(callee) {
			if r, ok := e.inlineCall(callee, bindings, args, guard); ok {
				return r
			}
			// a module function without a contract that cannot be executed in place (loops, defers, recursion):
			// its effect and its own safety are unknown - reported as a failed obligation at the call, and the
			// caller is verified against the weakest contract for it
			e.oblige("pre", "uncontracted@"+shortKey(key), "call of "+shortKey(key)+", a module function without a contract (not inlinable): nothing is known about it", nil, guard, "false")
			con = e.unknownExtern(key)
		} else {
			con = e.unknownExtern(key)
		}
	}
	all := append(append([]Value{}, args...), bindings...)
	return e.applyContractFn(con, callee, all, len(args), guard, "")
}

func (e *Exec) applyContractFn(con *Contract, fn *ssa.Function, args []Value, nargs int, guard, caseLabel string) Value {
	return e.applyContractFull(con, fn, fn.Signature, args, nargs, guard, caseLabel)
}

func (e *Exec) applyContract(con *Contract, fn *ssa.Function, sig *types.Signature, args []Value, guard, caseLabel string) Value {
	return e.applyContractFull(con, fn, sig, args, len(args), guard, caseLabel)
}

// paramNames returns the names under which the arguments are visible to the contract.
func contractParamNames(con *Contract, fn *ssa.Function, n int) []string {
	var names []string
	if fn != nil && len(con.ParamNames) > 0 && len(con.ParamNames) == len(fn.Params) {
		// the contract names receiver and parameters itself (bound by position): renaming them in the source
		// does not touch the contract
		names = append(names, con.ParamNames...)
		for _, fv := range fn.FreeVars {
			names = append(names, fv.Name())
		}
		return names
	}
	if fn != nil && len(fn.Params)+len(fn.FreeVars) >= n && (len(con.Params) == 0 || !con.Extern || con.Opaque) {
		for _, p := range fn.Params {
			names = append(names, p.Name())
		}
		for _, fv := range fn.FreeVars {
			names = append(names, fv.Name())
		}
		return names
	}
	for _, p := range con.Params {
		names = append(names, p.Name)
	}
	return names
}

func resultNames(con *Contract, sig *types.Signature) []string {
	var names []string
	if len(con.Results) > 0 {
		for _, r := range con.Results {
			names = append(names, r.Name)
		}
		return names
	}
	rs := sig.Results()
	for i := 0; i < rs.Len(); i++ {
		n := rs.At(i).Name()
		if n == "" || n == "_" {
			if rs.Len() == 1 {
				n = "result"
			} else {
				n = fmt.Sprintf("result%d", i)
			}
		}
		names = append(names, n)
	}
	return names
}

// applyCallback handles an extern that runs a function literal inside a transaction:
//
//	callback txn dbVar:txVar ...
//
// begin: every txVar := dbVar; r := closure(tx); the extern's own commit may fail; committed iff the
// result is nil; on commit every dbVar := txVar, otherwise the db variables are unchanged.
func (e *Exec) applyCallback(con *Contract, sig *types.Signature, args []Value, guard string) Value {
	s := e.st
	e.usedCallees[con.Key] = true
	f := strings.Fields(con.Callback)
	if len(f) < 2 || f[0] != "txn" {
		unsupportedf("callback kind %q", con.Callback)
	}
	var cl *Closure
	for _, a := range args {
		if a.Fn != nil {
			cl = a.Fn
		}
	}
	if cl == nil {
		unsupportedf("callback extern %s needs a function literal argument", con.RawName)
	}
	type pair struct{ db, tx string }
	var pairs []pair
	for _, p := range f[1:] {
		kv := strings.SplitN(p, ":", 2)
		pairs = append(pairs, pair{kv[0], kv[1]})
	}
	ghostComps := func(name string) []SlotDesc {
		g := e.CS.Ghost[name]
		if g == nil {
			panic(contractError{fmt.Sprintf("%s: callback names unknown ghost variable %s", con.RawName, name)})
		}
		env := &Env{e: e, st: s, pkgPath: g.PkgPath}
		return slotsOf(env.resolveType(g.Ty))
	}
	// begin
	for _, p := range pairs {
		for _, sd := range ghostComps(p.db) {
			cur := e.compTerm(s, "G|"+p.db+sd.Path, sd.Sort)
			e.frameCheck("G|"+p.tx+sd.Path, "")
			e.setComp(s, "G|"+p.tx+sd.Path, sd.Sort, cur)
		}
	}
	// the transaction handle
	txT := cl.Fn.Signature.Params().At(0).Type()
	tx := Value{T: txT, S: []string{e.alloc(s, types.NewArray(tInt, 0))}}
	r := e.callFunction(cl.Fn, cl.Bindings, []Value{tx}, guard)
	// commit
	commitErr := e.freshValue("commiterr", sig.Results().At(0).Type())
	e.assumeWF(s, commitErr, false)
	rNil := "(and (= " + r.S[0] + " 0) (= " + r.S[1] + " 0))"
	res := iteValue(rNil, commitErr, r)
	e.nameSlots(&res, "txres")
	committed := e.define("committed", "Bool", "(and "+rNil+" (= "+commitErr.S[0]+" 0) (= "+commitErr.S[1]+" 0))")
	for _, p := range pairs {
		for _, sd := range ghostComps(p.db) {
			cur := e.compTerm(s, "G|"+p.db+sd.Path, sd.Sort)
			txv := e.compTerm(s, "G|"+p.tx+sd.Path, sd.Sort)
			e.frameCheck("G|"+p.db+sd.Path, "")
			e.setComp(s, "G|"+p.db+sd.Path, sd.Sort, "(ite "+committed+" "+txv+" "+cur+")")
		}
	}
	// a ghost counter named txCommits, if declared, counts the committed transactions
	if g := e.CS.Ghost["txCommits"]; g != nil {
		cur := e.compTerm(s, "G|txCommits", "Int")
		e.frameCheck("G|txCommits", "")
		e.setComp(s, "G|txCommits", "Int", "(ite "+committed+" (+ "+cur+" 1) "+cur+")")
		// and txStarted the started ones
	}
	if g := e.CS.Ghost["txStarted"]; g != nil {
		cur := e.compTerm(s, "G|txStarted", "Int")
		e.frameCheck("G|txStarted", "")
		e.setComp(s, "G|txStarted", "Int", "(+ "+cur+" 1)")
	}
	return res
}

func (e *Exec) applyContractFull(con *Contract, fn *ssa.Function, sig *types.Signature, args []Value, nargs int, guard, caseLabel string) Value {
	if con.Callback != "" {
		return e.applyCallback(con, sig, args, guard)
	}
	s := e.st
	e.usedCallees[con.Key] = true
	names := contractParamNames(con, fn, len(args))
	vars := map[string]Value{}
	for i, a := range args {
		if i < len(names) && names[i] != "" && names[i] != "_" {
			vars[names[i]] = a
		}
	}
	pre := s.clone()
	env := &Env{e: e, vars: vars, st: pre, old: pre, pkgPath: con.PkgPath}
	short := shortKey(con.Key)
	saveReach := e.reach
	if guard != "" && guard != "true" {
		e.reach = e.define("callg", "Bool", "(and "+saveReach+" "+guard+")")
	}
	defer func() { e.reach = saveReach }()

	// lets are evaluated in the pre-state
	for i, l := range con.Lets {
		env.vars[l.Name] = e.evalSpecSafe(env, con.LetExprs[i], con, "let "+l.Name)
	}
	for _, ac := range e.Con.AtCalls {
		ck := stripTypeArgs(con.Key)
		if !ac.Clause.activeFor(e.Prop) || !(strings.HasSuffix(ck, "."+ac.Callee) || ck == ac.Callee) {
			continue
		}
		cv := map[string]Value{}
		for k, v := range vars {
			cv[k] = v
		}
		cenv := &Env{e: e, vars: cv, st: pre, old: e.entry, pkgPath: e.Con.PkgPath, lookup: e.localEnv(pre)}
		if ac.Assign != nil {
			genv := &Env{e: e, vars: cv, st: s, old: e.entry, pkgPath: e.Con.PkgPath, lookup: e.localEnv(s)}
			e.ghostAssignEnv(s, genv, ac.Assign)
			pre = s.clone()
			env.st, env.old = pre, pre
			continue
		}
		t := e.evalSpecBool(cenv, ac.Clause.Expr, e.Con, "atcall")
		e.oblige("atcall", ac.Clause.Label+"@"+short+caseLabel, ac.Clause.Text, ac.Clause.Props, "", t)
		if !knownFailing[e.Key+"#atcall["+ac.Clause.Label+"@"+short+caseLabel+"]"] {
			e.assume(t) // assert-then-assume: later obligations may use it as a lemma (not if it is a known finding)
		}
	}
	if con.Fatal {
		e.oblige("nofatal", short+caseLabel, "call of "+short+" (terminates the process abnormally)", nil, "", "false")
	}
	if fn != nil && fn.Signature.Recv() != nil && isPointer(fn.Signature.Recv().Type()) && len(args) > 0 && args[0].Loc == nil && len(args[0].S) == 1 {
		// implicit precondition of every pointer-receiver method under contract
		e.oblige("pre", "recv@"+short+caseLabel, "receiver != nil", nil, "", "(not (= "+args[0].S[0]+" 0))")
	}
	for _, r := range con.Requires {
		if !r.activeFor(e.Prop) {
			continue
		}
		t := e.evalSpecBool(env, r.Expr, con, "requires")
		lbl := r.Label
		if lbl == "" {
			lbl = fmt.Sprintf("%d", r.Line)
		}
		e.oblige("pre", lbl+"@"+short+caseLabel, r.Text, r.Props, "", t)
		e.assume(t)
	}
	// frame
	var mods []modEntry
	var protected map[string][]string // component -> refs of this function's variables the callee cannot reach
	for i, m := range con.Modifies {
		ents := e.modEntriesSafe(env, m, con.ModText[i], con)
		if i < len(con.ModCond) && con.ModCond[i] != nil {
			c := e.evalSpecBool(env, con.ModCond[i], con, "modifies-if")
			for k := range ents {
				ents[k].cond = c
			}
		}
		mods = append(mods, ents...)
	}
	if con.NoFrame {
		// "modifies anything": every heap, element, map and ghost component is havocked
		if !e.discovery && !e.lemmaMode && !(e.Con != nil && e.Con.NoFrame) {
			e.oblige("frame", "anything@"+shortKey(con.Key), "call of "+con.RawName+" (modifies anything) from a function with a frame", nil, "", "false")
		}
		if e.discovery && e.cur != nil {
			if e.writes[e.cur] == nil {
				e.writes[e.cur] = map[string]bool{}
			}
			e.writes[e.cur]["*ALL"] = true
		}
		var names []string
		for k := range e.compSort {
			if strings.HasPrefix(k, "H|") || strings.HasPrefix(k, "E|") || strings.HasPrefix(k, "M|") || strings.HasPrefix(k, "G|") {
				names = append(names, k)
			}
		}
		sort.Strings(names)
		for _, k := range names {
			mods = append(mods, modEntry{comp: k, text: "anything"})
		}
		protected = e.unsharedCells()
	}
	for _, m := range mods {
		cur := e.compTerm(s, m.comp, e.compSort[m.comp])
		sort := e.compSort[m.comp]
		var nw string
		saveR := e.reach
		if m.cond != "" {
			e.reach = e.define("modg", "Bool", "(and "+saveR+" "+m.cond+")")
		}
		if m.ref == "" {
			e.frameCheck(m.comp, "")
			nw = e.freshConst("hv_"+m.comp, sort)
		} else {
			e.frameCheck(m.comp, m.ref)
			_, rng := splitArraySort(sort)
			nw = "(store " + cur + " " + m.ref + " " + e.freshConst("hv_"+m.comp, rng) + ")"
		}
		e.reach = saveR
		for _, r := range protected[m.comp] {
			nw = "(store " + nw + " " + r + " (select " + cur + " " + r + "))"
		}
		if m.cond != "" {
			nw = "(ite " + m.cond + " " + nw + " " + cur + ")"
		}
		if guard != "" && guard != "true" {
			nw = "(ite " + guard + " " + nw + " " + cur + ")"
		}
		e.setComp(s, m.comp, sort, nw)
	}
	if !con.Pure {
		w := e.W(s)
		nw := e.freshConst("W", "Int")
		e.axiom("(>= " + nw + " " + w + ")")
		if guard != "" && guard != "true" {
			nw = "(ite " + guard + " " + nw + " " + w + ")"
		}
		e.setComp(s, "W", "Int", nw)
	}
	// results
	rnames := resultNames(con, sig)
	rs := sig.Results()
	var results []Value
	for i := 0; i < rs.Len(); i++ {
		rv := e.freshValue("r_"+short+"_"+rnames[i], rs.At(i).Type())
		e.assumeWF(s, rv, false)
		results = append(results, rv)
	}
	post := &Env{e: e, vars: map[string]Value{}, st: s, old: pre, pkgPath: con.PkgPath}
	for k, v := range env.vars {
		post.vars[k] = v
	}
	for i, n := range rnames {
		post.vars[n] = results[i]
	}
	if len(results) == 1 {
		post.vars["result"] = results[0]
	}
	if con.Fatal {
		e.assume("false")
	}
	if con.Functional != "" && len(results) == 1 && len(results[0].S) == 1 {
		e.assume("(= " + results[0].S[0] + " " + e.functionalTerm(pre, con.Functional, args[:nargs], slotsOf(results[0].T)[0].Sort) + ")")
	} else if con.Functional != "" && len(results) == 1 {
		// multi-slot result (slice: reference, length, capacity): one function per slot
		for i, sd := range slotsOf(results[0].T) {
			e.assume("(= " + results[0].S[i] + " " + e.functionalTerm(pre, fmt.Sprintf("%s!%d", con.Functional, i), args[:nargs], sd.Sort) + ")")
		}
	}
	for _, en := range con.Ensures {
		if !en.activeFor(e.Prop) {
			continue
		}
		t := e.evalSpecBool(post, en.Expr, con, "ensures")
		e.assume(t)
	}
	switch len(results) {
	case 0:
		return Value{T: rs}
	case 1:
		return results[0]
	}
	return Value{T: rs, Tup: results}
}

func shortKey(key string) string {
	k := strings.TrimPrefix(key, repoModule+"/internal/")
	k = strings.TrimPrefix(k, repoModule+"/")
	return k
}

type contractError struct{ msg string }

func (e *Exec) evalSpecSafe(env *Env, x *SExpr, con *Contract, what string) (v Value) {
	defer func() {
		if r := recover(); r != nil {
			if se, ok := r.(specError); ok {
				panic(contractError{fmt.Sprintf("%s:%d: %s of %s: %s", con.File, con.Line, what, con.RawName, se.msg)})
			}
			if re, ok := r.(runtime.Error); ok {
				panic(contractError{fmt.Sprintf("%s:%d: %s of %s: cannot evaluate %s (%v)", con.File, con.Line, what, con.RawName, x, re)})
			}
			panic(r)
		}
	}()
	return env.eval(x)
}

func (e *Exec) evalSpecBool(env *Env, x *SExpr, con *Contract, what string) string {
	v := e.evalSpecSafe(env, x, con, what)
	if !isBool(v.T) {
		panic(contractError{fmt.Sprintf("%s:%d: %s of %s: boolean expected in %s", con.File, con.Line, what, con.RawName, x)})
	}
	return v.S[0]
}

func (e *Exec) modEntriesSafe(env *Env, x *SExpr, text string, con *Contract) (m []modEntry) {
	defer func() {
		if r := recover(); r != nil {
			if se, ok := r.(specError); ok {
				panic(contractError{fmt.Sprintf("%s:%d: modifies of %s: %s", con.File, con.Line, con.RawName, se.msg)})
			}
			panic(r)
		}
	}()
	return env.modEntries(x, text)
}

// ---- interface dispatch -------------------------------------------------------------------------

type implInfo struct {
	dyn   types.Type    // dynamic type stored in the interface
	fn    *ssa.Function // declared method
	deref bool          // dynamic type is *T but the method has a value receiver
}

var implCache = map[string][]implInfo{}

func (e *Exec) implementations(iface types.Type, method *types.Func) []implInfo {
	key := typeKeyFull(iface) + "." + method.Name()
	if r, ok := implCache[key]; ok {
		return r
	}
	it := iface.Underlying().(*types.Interface)
	var out []implInfo
	var pkgs []string
	for path := range e.P.ByPkg {
		if strings.HasPrefix(path, repoModule) {
			pkgs = append(pkgs, path)
		}
	}
	sort.Strings(pkgs)
	for _, path := range pkgs {
		sp := e.P.ByPkg[path]
		names := sp.Pkg.Scope().Names()
		for _, n := range names {
			tn, ok := sp.Pkg.Scope().Lookup(n).(*types.TypeName)
			if !ok || tn.IsAlias() {
				continue
			}
			t := tn.Type()
			if isInterface(t) {
				continue
			}
			if nt, ok := t.(*types.Named); ok && nt.TypeParams().Len() > 0 {
				continue
			}
			for _, dyn := range []types.Type{t, types.NewPointer(t)} {
				if !types.Implements(dyn, it) {
					continue
				}
				sel := types.NewMethodSet(dyn).Lookup(method.Pkg(), method.Name())
				if sel == nil {
					continue
				}
				fobj := sel.Obj().(*types.Func)
				fn := e.P.SSA.FuncValue(fobj)
				if fn == nil {
					continue
				}
				_, recvPtr := fobj.Type().(*types.Signature).Recv().Type().(*types.Pointer)
				_, dynPtr := dyn.(*types.Pointer)
				out = append(out, implInfo{dyn: dyn, fn: fn, deref: dynPtr && !recvPtr})
			}
		}
	}
	implCache[key] = out
	return out
}

// implTypes lists the module's dynamic types implementing an interface.
func (e *Exec) implTypes(iface types.Type) []types.Type {
	it := iface.Underlying().(*types.Interface)
	var out []types.Type
	var pkgs []string
	for path := range e.P.ByPkg {
		if strings.HasPrefix(path, repoModule) {
			pkgs = append(pkgs, path)
		}
	}
	sort.Strings(pkgs)
	for _, path := range pkgs {
		sp := e.P.ByPkg[path]
		for _, n := range sp.Pkg.Scope().Names() {
			tn, ok := sp.Pkg.Scope().Lookup(n).(*types.TypeName)
			if !ok || tn.IsAlias() || isInterface(tn.Type()) {
				continue
			}
			if nt, ok := tn.Type().(*types.Named); ok && nt.TypeParams().Len() > 0 {
				continue
			}
			for _, dyn := range []types.Type{tn.Type(), types.NewPointer(tn.Type())} {
				if types.Implements(dyn, it) {
					// a value type implementing the interface is listed once (as T); *T only if T does not
					if _, isPtr := dyn.(*types.Pointer); isPtr && types.Implements(tn.Type(), it) {
						continue
					}
					out = append(out, dyn)
				}
			}
		}
	}
	return out
}

func (e *Exec) invoke(c *ssa.CallCommon, recv Value, args []Value, guard string) Value {
	s := e.st
	it := types.Unalias(c.Value.Type())
	// non-module interfaces: contract of the interface method itself
	named, _ := it.(*types.Named)
	inMod := named != nil && named.Obj().Pkg() != nil && strings.HasPrefix(named.Obj().Pkg().Path(), repoModule)
	ikey := ""
	if named != nil {
		if named.Obj().Pkg() != nil {
			ikey = named.Obj().Pkg().Path() + "." + named.Obj().Name() + "." + c.Method.Name()
		} else {
			ikey = named.Obj().Name() + "." + c.Method.Name()
		}
	}
	e.oblige("safe.nil", "", "method call on nil interface", nil, guard, "(not (= "+recv.S[0]+" 0))")
	if con := e.CS.ByKey[ikey]; con != nil && (con.Iface || !inMod) {
		return e.applyContract(con, nil, c.Signature(), append([]Value{recv}, args...), guard, "")
	}
	if ikey == "error.Error" {
		return Value{T: tString, S: []string{e.freshConst("errmsg", "Str")}}
	}
	if !inMod {
		return e.applyContract(e.unknownExtern(ikey), nil, c.Signature(), append([]Value{recv}, args...), guard, "")
	}
	impls := e.implementations(it, c.Method)
	if len(impls) == 0 {
		unsupportedf("no implementation of %s found", ikey)
	}
	e.CS.Closed[typeKeyFull(it)] = true
	var tags []string
	for _, im := range impls {
		tags = append(tags, fmt.Sprintf("(= %s %d)", recv.S[0], typeReg.id(im.dyn)))
	}
	e.assume("(or (= " + recv.S[0] + " 0) " + strings.Join(tags, " ") + ")")
	var results []Value
	var conds []string
	for i, im := range impls {
		key := FuncKey(im.fn)
		con := e.CS.ByKey[key]
		cond := tags[i]
		if con != nil && len(con.DispatchOnly) > 0 && e.Prop != "" {
			in := false
			for _, pr := range con.DispatchOnly {
				if pr == e.Prop {
					in = true
				}
			}
			if !in {
				con = nil
			}
		}
		if con == nil {
			// an implementation without a contract (or one that is a dispatch target only in other
			// property modes): this call site must exclude it
			e.oblige("pre", "dyn-excluded@"+shortKey(key), "the dynamic type "+typeKey(im.dyn)+" (no contract) cannot occur here", nil, guard, "(not "+cond+")")
			e.assume("(not " + cond + ")")
			continue
		}
		g := cond
		if guard != "" && guard != "true" {
			g = "(and " + guard + " " + cond + ")"
		}
		var rv Value
		if im.deref || !pointerShaped(im.dyn) {
			t := im.dyn
			if p, ok := t.(*types.Pointer); ok {
				t = p.Elem()
			}
			rv = e.load(s, &Loc{Kind: LHeap, Obj: t, Ref: recv.S[1], T: t})
		} else {
			rv = Value{T: im.dyn, S: []string{recv.S[1]}}
		}
		r := e.applyContractFn(con, im.fn, append([]Value{rv}, args...), 1+len(args), g, "[case="+typeKey(im.dyn)+"]")
		results = append(results, r)
		conds = append(conds, cond)
	}
	if len(results) == 0 {
		unsupportedf("no implementation of %s has a contract", ikey)
	}
	m := mergeValues(conds, results)
	e.nameSlots(&m, "dyn")
	return m
}

func mergeValues(conds []string, vals []Value) Value {
	if len(vals) == 1 {
		return vals[0]
	}
	out := vals[len(vals)-1]
	for i := len(vals) - 2; i >= 0; i-- {
		out = iteValue(conds[i], vals[i], out)
	}
	return out
}

func iteValue(c string, a, b Value) Value {
	if a.Tup != nil {
		out := Value{T: a.T}
		for i := range a.Tup {
			out.Tup = append(out.Tup, iteValue(c, a.Tup[i], b.Tup[i]))
		}
		return out
	}
	out := Value{T: a.T, S: make([]string, len(a.S))}
	for i := range a.S {
		if a.S[i] == b.S[i] {
			out.S[i] = a.S[i]
		} else {
			out.S[i] = "(ite " + c + " " + a.S[i] + " " + b.S[i] + ")"
		}
	}
	return out
}

// ---- built-ins -------------------------------------------------------------------------------

func (e *Exec) builtin(b *ssa.Builtin, c *ssa.CallCommon, args []Value, guard string) Value {
	s := e.st
	switch b.Name() {
	case "len":
		x := args[0]
		switch {
		case isSlice(x.T):
			return intVal(x.S[1])
		case isMap(x.T):
			e.mapLenFacts(s, x)
			return intVal(e.mapLen(s, x))
		case isString(x.T):
			return intVal("(strlen " + x.S[0] + ")")
		}
		unsupportedf("len of %s", x.T)
	case "cap":
		if isSlice(args[0].T) {
			return intVal(args[0].S[2])
		}
		unsupportedf("cap of %s", args[0].T)
	case "append":
		return e.appendBuiltin(c, args)
	case "delete":
		mt := args[0].T.Underlying().(*types.Map)
		e.mapDelete(s, args[0], e.conv(args[1], mt.Key()))
		return Value{}
	case "ssa:deferstack":
		return Value{T: b.Type(), S: []string{"0"}}
	case "ssa:wrapnilchk":
		e.nilCheck(args[0], "nil receiver")
		return args[0]
	case "print", "println":
		return Value{}
	case "close":
		if con := e.CS.ByKey["builtin.close"]; con != nil {
			return e.applyContract(con, nil, types.NewSignatureType(nil, nil, nil, nil, nil, false), args, guard, "")
		}
		return Value{}
	case "min", "max":
		if isInteger(args[0].T) {
			op := "<="
			if b.Name() == "max" {
				op = ">="
			}
			r := args[0].S[0]
			for _, a := range args[1:] {
				r = "(ite (" + op + " " + r + " " + a.S[0] + ") " + r + " " + a.S[0] + ")"
			}
			return Value{T: args[0].T, S: []string{r}}
		}
	}
	unsupportedf("builtin %s", b.Name())
	return Value{}
}

func (e *Exec) appendBuiltin(c *ssa.CallCommon, args []Value) Value {
	s := e.st
	sl, t := args[0], args[1]
	elem := c.Args[0].Type().Underlying().(*types.Slice).Elem()
	if isString(t.T) {
		unsupportedf("append of string bytes")
	}
	if !isNumeral(t.S[1]) {
		unsupportedf("append of a slice of unknown length")
	}
	var k int
	fmt.Sscanf(t.S[1], "%d", &k)
	if k == 0 {
		return sl
	}
	n1 := sl.S[1]
	newlen := e.define("applen", "Int", fmt.Sprintf("(+ %s %d)", n1, k))
	inplace := e.define("appinplace", "Bool", "(<= "+newlen+" "+sl.S[2]+")")
	// read appended elements before any write
	var elems []Value
	for i := 0; i < k; i++ {
		elems = append(elems, e.load(s, &Loc{Kind: LElem, Obj: elem, Ref: t.S[0], Idx: fmt.Sprint(i), T: elem}))
	}
	fresh := e.alloc(s, types.NewArray(elem, 0))
	arr := e.define("apparr", "Int", "(ite "+inplace+" "+sl.S[0]+" "+fresh+")")
	freshCap := e.freshConst("appcap", "Int")
	e.axiom("(>= " + freshCap + " " + newlen + ")")
	cp := "(ite " + inplace + " " + sl.S[2] + " " + freshCap + ")"
	for si, sd := range slotsOf(elem) {
		name := elemComp(elem, sd.Path)
		sort := "(Array Int (Array Int " + sd.Sort + "))"
		cur := e.compTerm(s, name, sort)
		content := "(select " + cur + " " + sl.S[0] + ")"
		for i := 0; i < k; i++ {
			content = fmt.Sprintf("(store %s (+ %s %d) %s)", content, n1, i, elems[i].S[si])
		}
		if !e.discovery && !e.lemmaMode {
			// an in-place append writes into the existing backing array
			save := e.reach
			e.reach = e.define("appg", "Bool", "(and "+save+" "+inplace+")")
			e.frameCheck(name, sl.S[0])
			e.reach = save
		}
		e.setComp(s, name, sort, "(store "+cur+" "+arr+" "+content+")")
	}
	return Value{T: sl.T, S: []string{arr, newlen, cp}}
}

// ---- defer / select -----------------------------------------------------------------------------

type deferRec struct {
	ins  *ssa.Defer
	flag string // state component name
}

func (e *Exec) deferInstr(ins *ssa.Defer) {
	name := fmt.Sprintf("D|%d", e.deferOrdinal(ins))
	e.setComp(e.st, name, "Bool", "true")
	for _, d := range e.deferRecs {
		if d.ins == ins {
			return
		}
	}
	// evaluate operands now (SSA values are immutable, so they can be read at RunDefers)
	e.deferRecs = append(e.deferRecs, deferRec{ins: ins, flag: name})
}

func (e *Exec) deferOrdinal(d *ssa.Defer) int {
	n := 0
	for _, b := range e.Fn.Blocks {
		for _, i := range b.Instrs {
			if dd, ok := i.(*ssa.Defer); ok {
				n++
				if dd == d {
					return n
				}
			}
		}
	}
	return 0
}

func (e *Exec) runDefers() {
	for i := len(e.deferRecs) - 1; i >= 0; i-- {
		d := e.deferRecs[i]
		if lp := e.loopOf(d.ins.Block()); lp != nil {
			unsupportedf("defer inside a loop")
		}
		flag := e.compTerm(e.st, d.flag, "Bool")
		if flag == "false" {
			continue
		}
		save := e.curInstr
		e.curInstr = d.ins
		e.doCall(d.ins, flag)
		e.curInstr = save
	}
}

func (e *Exec) loopOf(b *ssa.BasicBlock) *loopInfo {
	for _, l := range e.loops {
		if l.blocks[b] {
			return l
		}
	}
	return nil
}

func (e *Exec) selectInstr(ins *ssa.Select) {
	idx := e.freshConst("selidx", "Int")
	lo := "0"
	if !ins.Blocking {
		lo = "(- 1)"
	}
	e.assume(fmt.Sprintf("(and (<= %s %s) (< %s %d))", lo, idx, idx, len(ins.States)))
	tup := []Value{intVal(idx), e.freshValue("selok", tBool)}
	for _, st := range ins.States {
		if st.Dir == types.RecvOnly {
			v := e.freshValue("selrecv", st.Chan.Type().Underlying().(*types.Chan).Elem())
			e.assumeWF(e.st, v, false)
			tup = append(tup, v)
		}
	}
	e.vals[ins] = Value{T: ins.Type(), Tup: tup}
}

// nameSlots gives compound slot terms short names (keeps later terms small).
func (e *Exec) nameSlots(v *Value, prefix string) {
	if v.Tup != nil {
		for i := range v.Tup {
			e.nameSlots(&v.Tup[i], prefix)
		}
		return
	}
	if v.T == nil || v.S == nil {
		return
	}
	sl := slotsOf(v.T)
	for i := range v.S {
		if strings.HasPrefix(v.S[i], "(ite") && i < len(sl) {
			v.S[i] = e.define(prefix, sl[i].Sort, v.S[i])
		}
	}
}

// functionalTerm builds NAME(args...) for a contract marked "functional": scalars contribute their
// slots, slices their content array and length.
func (e *Exec) functionalTerm(s *State, name string, args []Value, resSort string) string {
	var terms, sorts []string
	for _, a := range args {
		if sl, ok := a.T.Underlying().(*types.Slice); ok && len(slotsOf(sl.Elem())) == 1 {
			sd := slotsOf(sl.Elem())[0]
			arr := e.compTerm(s, elemComp(sl.Elem(), sd.Path), "(Array Int (Array Int "+sd.Sort+"))")
			terms = append(terms, "(select "+arr+" "+a.S[0]+")", a.S[1])
			sorts = append(sorts, "(Array Int "+sd.Sort+")", "Int")
			continue
		}
		for i, sd := range slotsOf(a.T) {
			terms = append(terms, a.S[i])
			sorts = append(sorts, sd.Sort)
		}
	}
	fn := "fn!" + sanitize(name)
	if !e.vc.declared[fn] && !e.discovery {
		e.vc.declared[fn] = true
		e.vc.add("(declare-fun " + fn + " (" + strings.Join(sorts, " ") + ") " + resSort + ")")
	}
	if len(terms) == 0 {
		return fn
	}
	return "(" + fn + " " + strings.Join(terms, " ") + ")"
}

// unsharedCells: heap-allocated local variables of the current function (captured by function literals)
// that a callee invoked at the current instruction cannot reach: their address is only ever loaded from,
// stored to or bound into a function literal, and no literal binding them can have been created yet
// (no control-flow path from the literal's creation to the current call).
func (e *Exec) unsharedCells() map[string][]string {
	out := map[string][]string{}
	cur := e.curInstr
	if cur == nil || cur.Block() == nil {
		return out
	}
	fn := cur.Block().Parent()
	idx := func(ins ssa.Instruction) int {
		for i, x := range ins.Block().Instrs {
			if x == ins {
				return i
			}
		}
		return -1
	}
	reaches := func(from ssa.Instruction) bool {
		if from.Block() == cur.Block() && idx(from) < idx(cur) {
			return true
		}
		seen := map[*ssa.BasicBlock]bool{}
		var dfs func(b *ssa.BasicBlock) bool
		dfs = func(b *ssa.BasicBlock) bool {
			if b == cur.Block() {
				return true
			}
			if seen[b] {
				return false
			}
			seen[b] = true
			for _, s := range b.Succs {
				if dfs(s) {
					return true
				}
			}
			return false
		}
		for _, s := range from.Block().Succs {
			if dfs(s) {
				return true
			}
		}
		return false
	}
	for _, b := range fn.Blocks {
		for _, ins := range b.Instrs {
			a, ok := ins.(*ssa.Alloc)
			if !ok || !a.Heap {
				continue
			}
			v, have := e.vals[a]
			if !have || len(v.S) != 1 || a.Referrers() == nil {
				continue
			}
			safe := true
			for _, r := range *a.Referrers() {
				switch r := r.(type) {
				case *ssa.DebugRef:
				case *ssa.UnOp:
				case *ssa.Store:
					if r.Val == ssa.Value(a) {
						safe = false
					}
				case *ssa.MakeClosure:
					if reaches(r) {
						safe = false
					}
				default:
					safe = false
				}
			}
			if !safe {
				continue
			}
			elem := a.Type().(*types.Pointer).Elem()
			for _, sd := range slotsOf(elem) {
				name := heapComp(elem, sd.Path)
				out[name] = append(out[name], v.S[0])
			}
		}
	}
	return out
}

// effect-free standard-library packages: a function of one of these packages that has no contract and takes
// only scalar / string arguments (nothing through which it could reach module state) is treated as
// "effectfree" with an arbitrary well-formed result. Every use is recorded (evidence: defaulted externs).
var pureStdPkgs = map[string]bool{"time": true, "strings": true, "strconv": true, "math": true, "errors": true, "path/filepath": true, "path": true,
	"unicode": true, "unicode/utf8": true, "math/bits": true, "os/user": true, "runtime": true}

var defaultedExterns = map[string]bool{}

func scalarOnly(t types.Type) bool {
	switch u := t.Underlying().(type) {
	case *types.Basic:
		return u.Kind() != types.UnsafePointer
	case *types.Struct:
		for i := 0; i < u.NumFields(); i++ {
			if !scalarOnly(u.Field(i).Type()) {
				return false
			}
		}
		return true
	}
	return false
}

func (e *Exec) defaultExtern(callee *ssa.Function, key string) *Contract {
	if callee == nil || inModule(callee) || callee.Pkg == nil || !pureStdPkgs[callee.Pkg.Pkg.Path()] {
		return nil
	}
	sig := callee.Signature
	if sig.Recv() != nil && !scalarOnly(sig.Recv().Type()) {
		return nil
	}
	for i := 0; i < sig.Params().Len(); i++ {
		if !scalarOnly(sig.Params().At(i).Type()) {
			return nil
		}
	}
	defaultedExterns[key] = true
	c := &Contract{Key: key, RawName: key, PkgPath: callee.Pkg.Pkg.Path(), Extern: true, Pure: true, Loops: map[int]*LoopSpec{},
		Trusted: "defaulted: standard-library function with scalar arguments only, treated as effect-free with an arbitrary result"}
	e.CS.ByKey[key] = c
	return c
}

// unknownExtern: a function outside the module for which no contract was written and which does not qualify
// for the effect-free default. It is given the weakest contract there is - it may change every modelled heap,
// element, map and ghost component and returns arbitrary well-formed values - so that the verification of
// its caller goes on and whatever the caller's contract promised is checked against that (a sound
// over-approximation; recorded in the evidence when used). Writing a real contract for it is the way to get
// back what the over-approximation loses.
func (e *Exec) unknownExtern(key string) *Contract {
	defaultedExterns[key] = true
	c := &Contract{Key: key, RawName: key, Extern: true, NoFrame: true, Loops: map[int]*LoopSpec{},
		Trusted: "defaulted: no contract for this external function - treated as changing anything and returning anything"}
	e.CS.ByKey[key] = c
	return c
}

// stripTypeArgs removes the type-argument list go/ssa appends to the name of an instantiated generic function
// ("pkg.(T[A, B]).Set[A B]" -> "pkg.(T[A, B]).Set"), so that atcall clauses can name such callees.
func stripTypeArgs(key string) string {
	if !strings.HasSuffix(key, "]") {
		return key
	}
	depth := 0
	for i := len(key) - 1; i >= 0; i-- {
		switch key[i] {
		case ']':
			depth++
		case '[':
			depth--
			if depth == 0 {
				return key[:i]
			}
		}
	}
	return key
}
