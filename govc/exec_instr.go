package main

import (
	"fmt"
	"go/constant"
	"go/token"
	"go/types"
	"strings"

	"golang.org/x/tools/go/ssa"
)

// val returns the symbolic value of an SSA value.
func (e *Exec) val(v ssa.Value) Value {
	if x, ok := e.vals[v]; ok {
		return x
	}
	switch v := v.(type) {
	case *ssa.Const:
		return e.constOf(v)
	case *ssa.Global:
		return Value{T: v.Type(), S: []string{e.globalLoc(v).Ref}}
	case *ssa.Function:
		return Value{T: v.Type(), Fn: &Closure{Fn: v}}
	case *ssa.Builtin:
		return Value{T: v.Type()}
	}
	unsupportedf("value %s (%T) used before definition", v.Name(), v)
	return Value{}
}

func (e *Exec) constOf(c *ssa.Const) Value {
	t := c.Type()
	if c.Value == nil {
		// nil / zero value
		if _, ok := t.Underlying().(*types.Tuple); ok {
			return Value{T: t}
		}
		return zeroValue(t)
	}
	return e.constValue(t, c.Value)
}

var globalIDs = map[string]int{}

func (e *Exec) globalLoc(g *ssa.Global) *Loc {
	key := g.Pkg.Pkg.Path() + "." + g.Name()
	id, ok := globalIDs[key]
	if !ok {
		id = len(globalIDs) + 1
		globalIDs[key] = id
	}
	elem := g.Type().(*types.Pointer).Elem()
	// globals live in the ordinary typed heap at negative references (allocations are positive)
	return &Loc{Kind: LHeap, Obj: elem, Ref: fmt.Sprintf("(- %d)", id), T: elem}
}

// sentinelType is the pseudo dynamic type of an immutable error sentinel (os.ErrNotExist, ...).
type sentinelType struct{ key string }

func (g *sentinelType) Underlying() types.Type { return g }
func (g *sentinelType) String() string         { return "sentinel:" + g.key }

// loadGlobal reads a package-level variable; declared sentinels are constants.
func (e *Exec) loadGlobal(s *State, g *ssa.Global) Value {
	key := g.Pkg.Pkg.Path() + "." + g.Name()
	loc := e.globalLoc(g)
	if e.CS.Sentinels[key] && isInterface(loc.T) {
		id := typeReg.id(&sentinelType{key})
		return Value{T: loc.T, S: []string{fmt.Sprint(id), fmt.Sprint(id)}}
	}
	return e.load(s, loc)
}

// toLoc converts a pointer value to the location it denotes.
func (e *Exec) toLoc(p Value) *Loc {
	if p.Loc != nil {
		return p.Loc
	}
	pt, ok := p.T.Underlying().(*types.Pointer)
	if !ok {
		unsupportedf("dereference of non-pointer %s", p.T)
	}
	return &Loc{Kind: LHeap, Obj: pt.Elem(), Ref: p.S[0], T: pt.Elem()}
}

func (e *Exec) nilCheck(p Value, what string) {
	if p.Loc != nil {
		return
	}
	e.oblige("safe.nil", "", what, nil, "", "(not (= "+p.S[0]+" 0))")
}

// alloc creates a fresh heap object of type t, zero-initialised, and returns its reference.
func (e *Exec) alloc(s *State, t types.Type) string {
	w := e.W(s)
	ref := e.define("ref", "Int", w)
	e.setComp(s, "W", "Int", "(+ "+w+" 1)")
	if _, isArr := t.Underlying().(*types.Array); isArr {
		return ref
	}
	loc := &Loc{Kind: LHeap, Obj: t, Ref: ref, T: t}
	e.storeNoFrame(s, loc, zeroValue(t))
	return ref
}

func (e *Exec) storeNoFrame(s *State, loc *Loc, v Value) {
	save := e.lemmaMode
	e.lemmaMode = true
	e.store(s, loc, v)
	e.lemmaMode = save
}

func (e *Exec) setVal(v ssa.Value, x Value) {
	x.T = v.Type()
	e.vals[v] = x
}

func (e *Exec) execInstr(ins ssa.Instruction) {
	s := e.st
	e.curInstr = ins
	switch ins := ins.(type) {
	case *ssa.DebugRef:
	case *ssa.Alloc:
		elem := ins.Type().(*types.Pointer).Elem()
		_, isArr := elem.Underlying().(*types.Array)
		if ins.Heap || isArr {
			ref := e.alloc(s, elem)
			if isArr {
				// arrays are addressed like slice backing stores; zero their content
				at := elem.Underlying().(*types.Array)
				for _, sd := range slotsOf(at.Elem()) {
					name := elemComp(at.Elem(), sd.Path)
					sort := "(Array Int (Array Int " + sd.Sort + "))"
					arr := e.compTerm(s, name, sort)
					e.setComp(s, name, sort, "(store "+arr+" "+ref+" ((as const (Array Int "+sd.Sort+")) "+zeroSlot(sd.Sort)+"))")
				}
			}
			e.setVal(ins, Value{S: []string{ref}})
		} else {
			s.cells[ins] = zeroValue(elem).S
			e.noteCellWrite(ins)
			e.setVal(ins, Value{Loc: &Loc{Kind: LCell, Cell: ins, T: elem}})
		}
	case *ssa.Store:
		addr := e.val(ins.Addr)
		e.nilCheck(addr, "store")
		v := e.val(ins.Val)
		loc := e.toLoc(addr)
		if v.It != nil || v.Fn != nil || v.Loc != nil {
			if loc.Kind == LCell {
				// keep generation-time-only values out of band
				e.sideCells[loc.Cell] = v
				return
			}
		}
		e.store(s, loc, e.conv(v, loc.T))
	case *ssa.UnOp:
		e.unop(ins)
	case *ssa.BinOp:
		e.setVal(ins, e.binop(ins.Op, e.val(ins.X), e.val(ins.Y), ins.Type()))
	case *ssa.Convert:
		e.setVal(ins, e.convert(e.val(ins.X), ins.Type()))
	case *ssa.ChangeType:
		x := e.val(ins.X)
		e.setVal(ins, x)
	case *ssa.ChangeInterface:
		e.setVal(ins, e.val(ins.X))
	case *ssa.MakeInterface:
		e.setVal(ins, e.makeIface(s, e.val(ins.X), ins.X.Type()))
	case *ssa.TypeAssert:
		e.typeAssert(ins)
	case *ssa.Extract:
		t := e.val(ins.Tuple)
		if ins.Index >= len(t.Tup) {
			unsupportedf("extract #%d of %d-tuple", ins.Index, len(t.Tup))
		}
		e.vals[ins] = t.Tup[ins.Index]
	case *ssa.Phi:
		e.phi(ins)
	case *ssa.FieldAddr:
		base := e.val(ins.X)
		e.nilCheck(base, "field access")
		bl := e.toLoc(base)
		st := ins.X.Type().Underlying().(*types.Pointer).Elem().Underlying().(*types.Struct)
		n := *bl
		n.Path = bl.Path + "." + st.Field(ins.Field).Name()
		n.T = st.Field(ins.Field).Type()
		e.setVal(ins, Value{Loc: &n})
	case *ssa.Field:
		base := e.val(ins.X)
		st := ins.X.Type().Underlying().(*types.Struct)
		off, n, _ := fieldRange(st, ins.Field)
		e.setVal(ins, Value{S: base.S[off : off+n]})
	case *ssa.IndexAddr:
		base := e.val(ins.X)
		idx := e.val(ins.Index).S[0]
		switch u := ins.X.Type().Underlying().(type) {
		case *types.Slice:
			e.oblige("safe.index", "", "index in range", nil, "", "(and (<= 0 "+idx+") (< "+idx+" "+base.S[1]+"))")
			e.setVal(ins, Value{Loc: &Loc{Kind: LElem, Obj: u.Elem(), Ref: base.S[0], Idx: idx, T: u.Elem()}})
		case *types.Pointer:
			at := u.Elem().Underlying().(*types.Array)
			e.nilCheck(base, "array index")
			e.oblige("safe.index", "", "index in range", nil, "", fmt.Sprintf("(and (<= 0 %s) (< %s %d))", idx, idx, at.Len()))
			e.setVal(ins, Value{Loc: &Loc{Kind: LElem, Obj: at.Elem(), Ref: base.S[0], Idx: idx, T: at.Elem()}})
		default:
			unsupportedf("IndexAddr on %s", ins.X.Type())
		}
	case *ssa.Index:
		base := e.val(ins.X)
		idx := e.val(ins.Index).S[0]
		if isString(ins.X.Type()) {
			e.oblige("safe.index", "", "index in range", nil, "", "(and (<= 0 "+idx+") (< "+idx+" (strlen "+base.S[0]+")))")
			e.setVal(ins, e.freshValue("strbyte", ins.Type()))
			return
		}
		unsupportedf("Index on %s", ins.X.Type())
	case *ssa.Slice:
		e.slice(ins)
	case *ssa.MakeSlice:
		ln := e.val(ins.Len).S[0]
		cp := e.val(ins.Cap).S[0]
		elem := ins.Type().Underlying().(*types.Slice).Elem()
		e.oblige("safe.makeslice", "", "0 <= len <= cap", nil, "", "(and (<= 0 "+ln+") (<= "+ln+" "+cp+"))")
		ref := e.alloc(s, types.NewArray(elem, 0))
		for _, sd := range slotsOf(elem) {
			name := elemComp(elem, sd.Path)
			sort := "(Array Int (Array Int " + sd.Sort + "))"
			arr := e.compTerm(s, name, sort)
			e.setComp(s, name, sort, "(store "+arr+" "+ref+" ((as const (Array Int "+sd.Sort+")) "+zeroSlot(sd.Sort)+"))")
		}
		e.setVal(ins, Value{S: []string{ref, ln, cp}})
	case *ssa.MakeMap:
		e.setVal(ins, e.makeMap(s, ins.Type()))
	case *ssa.MakeChan:
		ref := e.alloc(s, types.NewArray(tInt, 0))
		e.setVal(ins, Value{S: []string{ref}})
	case *ssa.Lookup:
		x := e.val(ins.X)
		if isString(ins.X.Type()) {
			unsupportedf("string indexing")
		}
		mt := ins.X.Type().Underlying().(*types.Map)
		k := e.conv(e.val(ins.Index), mt.Key())
		v := e.mapLookup(s, x, k)
		if ins.CommaOk {
			e.vals[ins] = Value{T: ins.Type(), Tup: []Value{v, boolVal(e.mapHas(s, x, k))}}
		} else {
			e.setVal(ins, v)
		}
	case *ssa.MapUpdate:
		m := e.val(ins.Map)
		mt := ins.Map.Type().Underlying().(*types.Map)
		e.oblige("safe.mapwrite-nil", "", "write to nil map", nil, "", "(not (= "+m.S[0]+" 0))")
		e.mapUpdate(s, m, e.conv(e.val(ins.Key), mt.Key()), e.conv(e.val(ins.Value), mt.Elem()))
	case *ssa.MakeClosure:
		fn := ins.Fn.(*ssa.Function)
		cl := &Closure{Fn: fn}
		for _, b := range ins.Bindings {
			cl.Bindings = append(cl.Bindings, e.val(b))
		}
		e.setVal(ins, Value{Fn: cl})
	case *ssa.Range:
		e.rangeStart(ins)
	case *ssa.Next:
		e.rangeNext(ins)
	case *ssa.Call:
		r := e.doCall(ins, "true")
		r.T = ins.Type()
		e.vals[ins] = r
	case *ssa.Defer:
		e.deferInstr(ins)
	case *ssa.RunDefers:
		e.runDefers()
	case *ssa.Go:
		// A function under contract that starts a goroutine is no longer one sequential step: reported as a failed
		// obligation (none of the functions under contract does this on the unchanged tree), and the caller goes on
		// against the weakest contract for whatever the goroutine may do.
		e.oblige("nogo", "", "go statement: the function starts a goroutine, so what it promises about state no longer describes one sequential step", nil, "", "false")
		e.applyContract(e.unknownExtern("go statement"), nil, types.NewSignatureType(nil, nil, nil, nil, nil, false), nil, "", "")
	case *ssa.Select:
		e.selectInstr(ins)
	case *ssa.Send:
		// sending never affects verified state; the channel is abstract
	case *ssa.Panic:
		e.oblige("nopanic", "", "explicit panic", nil, "", "false")
		e.assume("false")
	case *ssa.If, *ssa.Jump, *ssa.Return:
		// handled by the block driver
	default:
		unsupportedf("instruction %T: %s", ins, ins)
	}
}

func (e *Exec) unop(ins *ssa.UnOp) {
	s := e.st
	x := e.val(ins.X)
	switch ins.Op {
	case token.MUL:
		if g, ok := ins.X.(*ssa.Global); ok {
			e.setVal(ins, e.loadGlobal(s, g))
			return
		}
		e.nilCheck(x, "load")
		loc := e.toLoc(x)
		if loc.Kind == LCell {
			if sv, ok := e.sideCells[loc.Cell]; ok && loc.Path == "" {
				e.vals[ins] = sv
				return
			}
		}
		e.setVal(ins, e.load(s, loc))
	case token.SUB:
		if isFloat(ins.Type()) {
			e.setVal(ins, e.floatNeg(x))
		} else {
			e.setVal(ins, Value{S: []string{"(- " + x.S[0] + ")"}})
		}
	case token.NOT:
		e.setVal(ins, Value{S: []string{"(not " + x.S[0] + ")"}})
	case token.ARROW:
		// channel receive: any value (channels are abstract)
		elem := ins.X.Type().Underlying().(*types.Chan).Elem()
		v := e.freshValue("recv", elem)
		e.assumeWF(s, v, false)
		if ins.CommaOk {
			e.vals[ins] = Value{T: ins.Type(), Tup: []Value{v, e.freshValue("recvok", tBool)}}
		} else {
			e.setVal(ins, v)
		}
	default:
		unsupportedf("unary operator %s", ins.Op)
	}
}

func (e *Exec) binop(op token.Token, a, b Value, rt types.Type) Value {
	t := a.T
	if t == nil {
		t = b.T
	}
	switch {
	case isFloat(a.T):
		switch op {
		case token.ADD, token.SUB, token.MUL, token.QUO:
			return e.floatBin(op.String(), a, b, rt)
		case token.EQL, token.NEQ, token.LSS, token.LEQ, token.GTR, token.GEQ:
			e.cmpHint(a, b)
			return Value{T: rt, S: []string{floatCmp(op.String(), a, b)}}
		}
	case isInteger(a.T):
		x, y := a.S[0], b.S[0]
		var r string
		switch op {
		case token.ADD:
			r = "(+ " + x + " " + y + ")"
		case token.SUB:
			r = "(- " + x + " " + y + ")"
		case token.MUL:
			r = "(* " + x + " " + y + ")"
		case token.QUO:
			e.oblige("safe.div0", "", "division by zero", nil, "", "(not (= "+y+" 0))")
			r = "(tdiv " + x + " " + y + ")"
		case token.REM:
			e.oblige("safe.div0", "", "division by zero", nil, "", "(not (= "+y+" 0))")
			r = "(tmod " + x + " " + y + ")"
		case token.AND:
			r = bitAnd(x, y)
		case token.SHL:
			if isNumeral(y) {
				var n int
				fmt.Sscanf(y, "%d", &n)
				r = "(* " + x + " " + pow2(n) + ")"
			} else {
				unsupportedf("shift by non-constant")
			}
		case token.SHR:
			if isNumeral(y) {
				var n int
				fmt.Sscanf(y, "%d", &n)
				r = "(div " + x + " " + pow2(n) + ")"
			} else {
				unsupportedf("shift by non-constant")
			}
		case token.EQL, token.NEQ, token.LSS, token.LEQ, token.GTR, token.GEQ:
			return Value{T: rt, S: []string{cmpTerm(op, x, y)}}
		default:
			unsupportedf("integer operator %s", op)
		}
		if op == token.ADD || op == token.SUB || op == token.MUL || op == token.SHL {
			bits, uns := intBits(rt)
			if e.checkOverflow {
				lo, hi := "(- "+pow2(bits-1)+")", pow2m1(bits-1)
				if uns {
					lo, hi = "0", pow2m1(bits)
				}
				e.oblige("safe.ovf", "", "integer overflow", nil, "", "(and (<= "+lo+" "+r+") (<= "+r+" "+hi+"))")
			}
		}
		return Value{T: rt, S: []string{r}}
	case isBool(a.T):
		switch op {
		case token.EQL:
			return Value{T: rt, S: []string{"(= " + a.S[0] + " " + b.S[0] + ")"}}
		case token.NEQ:
			return Value{T: rt, S: []string{"(not (= " + a.S[0] + " " + b.S[0] + "))"}}
		case token.AND, token.LAND:
			return Value{T: rt, S: []string{"(and " + a.S[0] + " " + b.S[0] + ")"}}
		case token.OR, token.LOR:
			return Value{T: rt, S: []string{"(or " + a.S[0] + " " + b.S[0] + ")"}}
		}
	case isString(a.T):
		switch op {
		case token.ADD:
			r := "(strcat " + a.S[0] + " " + b.S[0] + ")"
			e.assume("(= (strlen " + r + ") (+ (strlen " + a.S[0] + ") (strlen " + b.S[0] + ")))")
			return Value{T: rt, S: []string{r}}
		case token.EQL:
			return Value{T: rt, S: []string{"(= " + a.S[0] + " " + b.S[0] + ")"}}
		case token.NEQ:
			return Value{T: rt, S: []string{"(not (= " + a.S[0] + " " + b.S[0] + "))"}}
		}
	default:
		// pointers, interfaces, maps, slices-vs-nil, structs
		switch op {
		case token.EQL, token.NEQ:
			if a.Loc != nil || b.Loc != nil {
				unsupportedf("comparison of interior pointers")
			}
			if isInterface(a.T) != isInterface(b.T) {
				// comparing interface with concrete value: box first
				if isInterface(a.T) {
					b = e.makeIface(e.st, b, b.T)
				} else {
					a = e.makeIface(e.st, a, a.T)
				}
			}
			eq := valuesEqual(a, b)
			if op == token.NEQ {
				eq = "(not " + eq + ")"
			}
			return Value{T: rt, S: []string{eq}}
		}
	}
	unsupportedf("binary operator %s on %s", op, a.T)
	return Value{}
}

func cmpTerm(op token.Token, x, y string) string {
	switch op {
	case token.EQL:
		return "(= " + x + " " + y + ")"
	case token.NEQ:
		return "(not (= " + x + " " + y + "))"
	case token.LSS:
		return "(< " + x + " " + y + ")"
	case token.LEQ:
		return "(<= " + x + " " + y + ")"
	case token.GTR:
		return "(> " + x + " " + y + ")"
	case token.GEQ:
		return "(>= " + x + " " + y + ")"
	}
	panic("cmpTerm")
}

// conv adapts a value to the static type of the place it is stored into (constants of untyped
// nil, named/unnamed identical types).
func (e *Exec) conv(v Value, t types.Type) Value {
	if v.S == nil && v.Tup == nil {
		return v
	}
	if len(v.S) != len(slotsOf(t)) {
		if isInterface(t) && !isInterface(v.T) {
			return e.makeIface(e.st, v, v.T)
		}
		panic(fmt.Sprintf("conv: %s (%d slots) to %s (%d slots)", v.T, len(v.S), t, len(slotsOf(t))))
	}
	return Value{T: t, S: v.S, Loc: v.Loc, Fn: v.Fn}
}

func (e *Exec) convert(x Value, t types.Type) Value {
	from := x.T
	switch {
	case isInteger(from) && isInteger(t):
		fb, fu := intBits(from)
		tb, tu := intBits(t)
		if e.checkOverflow && (tb < fb || fu != tu) {
			lo, hi := "(- "+pow2(tb-1)+")", pow2m1(tb-1)
			if tu {
				lo, hi = "0", pow2m1(tb)
			}
			e.oblige("safe.ovf", "", "lossless integer conversion", nil, "", "(and (<= "+lo+" "+x.S[0]+") (<= "+x.S[0]+" "+hi+"))")
		}
		return Value{T: t, S: x.S}
	case isInteger(from) && isFloat(t):
		return e.intToFloat(t, x.S[0])
	case isFloat(from) && isInteger(t):
		bits, uns := intBits(t)
		return Value{T: t, S: []string{e.floatToInt(x, bits, uns)}}
	case isFloat(from) && isFloat(t):
		fb := from.Underlying().(*types.Basic).Kind()
		tb := t.Underlying().(*types.Basic).Kind()
		if tb == types.Float32 && fb != types.Float32 {
			k := e.define("fk32", "Int", "(fk_32 "+fk(x)+" "+fv(x)+")")
			r := e.fl.round32(e, fv(x))
			e.axiom(fmt.Sprintf("(and (=> (not (= %s 0)) (= %s %s)) (=> (= %s 0) (or (= %s 0) (= %s 1) (= %s 2))) (=> (and (= %s 0) (<= (absr %s) 16777216.0)) (= %s 0)))", fk(x), k, fk(x), fk(x), k, k, k, fk(x), fv(x), k))
			e.fl.addPoint(e, k, r)
			return Value{T: t, S: []string{k, r}}
		}
		return Value{T: t, S: x.S}
	case isString(t) && isSlice(from):
		return Value{T: t, S: []string{"(strofbytes " + x.S[0] + ")"}}
	case isSlice(t) && isString(from):
		elem := t.Underlying().(*types.Slice).Elem()
		ref := e.alloc(e.st, types.NewArray(elem, 0))
		e.assume("(= (strofbytes " + ref + ") " + x.S[0] + ")")
		ln := "(strlen " + x.S[0] + ")"
		return Value{T: t, S: []string{ref, ln, ln}}
	case isString(t) && isInteger(from):
		return Value{T: t, S: []string{e.freshConst("runestr", "Str")}}
	case isRefLike(t) && isRefLike(from):
		return Value{T: t, S: x.S, Loc: x.Loc}
	case types.Identical(from.Underlying(), t.Underlying()):
		return Value{T: t, S: x.S}
	}
	unsupportedf("conversion %s -> %s", from, t)
	return Value{}
}

// ---- interfaces ------------------------------------------------------------------------------

func pointerShaped(t types.Type) bool { return isRefLike(t) }

func (e *Exec) makeIface(s *State, x Value, dyn types.Type) Value {
	if isInterface(dyn) {
		return x
	}
	if x.Loc != nil || x.Fn != nil {
		// closures / interior pointers passed as interface{} (logging arguments): opaque non-nil box
		return Value{T: types.NewInterfaceType(nil, nil), S: []string{fmt.Sprint(typeReg.id(dyn)), e.freshConst("opaquebox", "Int")}}
	}
	tag := fmt.Sprint(typeReg.id(dyn))
	if pointerShaped(dyn) {
		return Value{T: types.NewInterfaceType(nil, nil), S: []string{tag, x.S[0]}}
	}
	ref := e.alloc(s, dyn)
	e.storeNoFrame(s, &Loc{Kind: LHeap, Obj: dyn, Ref: ref, T: dyn}, Value{T: dyn, S: x.S})
	return Value{T: types.NewInterfaceType(nil, nil), S: []string{tag, ref}}
}

func (e *Exec) unboxIface(s *State, x Value, t types.Type) Value {
	if pointerShaped(t) {
		return Value{T: t, S: []string{x.S[1]}}
	}
	return e.load(s, &Loc{Kind: LHeap, Obj: t, Ref: x.S[1], T: t})
}

func (e *Exec) typeAssert(ins *ssa.TypeAssert) {
	x := e.val(ins.X)
	t := ins.AssertedType
	if isInterface(t) {
		// interface-to-interface: the dynamic type set is unknown here
		ok := e.freshConst("ifaceok", "Bool")
		if ins.CommaOk {
			e.vals[ins] = Value{T: ins.Type(), Tup: []Value{{T: t, S: x.S}, boolVal(ok)}}
		} else {
			e.oblige("safe.assert", "", "type assertion", nil, "", ok)
			e.setVal(ins, Value{S: x.S})
		}
		return
	}
	okTerm := fmt.Sprintf("(= %s %d)", x.S[0], typeReg.id(t))
	if ins.CommaOk {
		v := e.unboxIface(e.st, x, t)
		// on failure the result is the zero value
		z := zeroValue(t)
		out := Value{T: t, S: make([]string, len(v.S))}
		for i := range v.S {
			out.S[i] = "(ite " + okTerm + " " + v.S[i] + " " + z.S[i] + ")"
		}
		e.vals[ins] = Value{T: ins.Type(), Tup: []Value{out, boolVal(okTerm)}}
		return
	}
	e.oblige("safe.assert", "", "type assertion "+typeKey(t), nil, "", okTerm)
	e.setVal(ins, e.unboxIface(e.st, x, t))
}

func (e *Exec) phi(ins *ssa.Phi) {
	b := ins.Block()
	var terms [][]string
	var conds []string
	var t0 Value
	for i, pred := range b.Preds {
		ec, ok := e.edgeOut[[2]*ssa.BasicBlock{pred, b}]
		if !ok {
			continue // back edge or unreachable
		}
		v := e.val(ins.Edges[i])
		t0 = v
		terms = append(terms, e.conv(v, ins.Type()).S)
		conds = append(conds, ec.reach)
	}
	if len(terms) == 0 {
		unsupportedf("phi without processed predecessors")
	}
	out := Value{T: ins.Type(), S: make([]string, len(terms[0]))}
	for k := range out.S {
		t := terms[len(terms)-1][k]
		for i := len(terms) - 2; i >= 0; i-- {
			t = "(ite " + conds[i] + " " + terms[i][k] + " " + t + ")"
		}
		out.S[k] = t
	}
	_ = t0
	e.vals[ins] = out
}

func (e *Exec) slice(ins *ssa.Slice) {
	x := e.val(ins.X)
	if isString(ins.X.Type()) {
		lo, hi := "0", "(strlen "+x.S[0]+")"
		if ins.Low != nil {
			lo = e.val(ins.Low).S[0]
		}
		if ins.High != nil {
			hi = e.val(ins.High).S[0]
		}
		e.oblige("safe.index", "", "string slice bounds", nil, "", "(and (<= 0 "+lo+") (<= "+lo+" "+hi+") (<= "+hi+" (strlen "+x.S[0]+")))")
		r := "(strsub " + x.S[0] + " " + lo + " " + hi + ")"
		e.assume("(= (strlen " + r + ") (- " + hi + " " + lo + "))")
		e.setVal(ins, Value{S: []string{r}})
		return
	}
	if ins.Low != nil {
		if c, ok := ins.Low.(*ssa.Const); !ok || c.Value == nil || constant.Sign(c.Value) != 0 {
			// s[lo:hi] with lo != 0: the slice model has no offset, so the sub-slice is a fresh array holding a
			// shifted copy of the elements. That is exact as long as nobody writes to elements of this type
			// afterwards (the aliasing between the two would be lost): such a write is refused (UNSUPPORTED).
			st, ok := ins.X.Type().Underlying().(*types.Slice)
			if !ok {
				unsupportedf("slicing an array with a non-zero low bound")
			}
			lo := e.val(ins.Low).S[0]
			hi := x.S[1]
			if ins.High != nil {
				hi = e.val(ins.High).S[0]
			}
			e.oblige("safe.index", "", "slice bounds", nil, "", "(and (<= 0 "+lo+") (<= "+lo+" "+hi+") (<= "+hi+" "+x.S[2]+"))")
			s := e.st
			ref := e.alloc(s, types.NewArray(st.Elem(), 0))
			for _, sd := range slotsOf(st.Elem()) {
				name := elemComp(st.Elem(), sd.Path)
				sort := "(Array Int (Array Int " + sd.Sort + "))"
				arr := e.compTerm(s, name, sort)
				shifted := e.freshConst("subslice", "(Array Int "+sd.Sort+")")
				if !e.discovery {
					e.vc.add(fmt.Sprintf("(assert (forall ((i!s Int)) (! (= (select %s i!s) (select (select %s %s) (+ i!s %s))) :pattern ((select %s i!s)))))", shifted, arr, x.S[0], lo, shifted))
				}
				e.setCompRaw(s, name, sort, "(store "+arr+" "+ref+" "+shifted+")")
				e.frozenElems[name] = true
			}
			newLen := e.define("sublen", "Int", "(- "+hi+" "+lo+")")
			newCap := e.define("subcap", "Int", "(- "+x.S[2]+" "+lo+")")
			e.setVal(ins, Value{S: []string{ref, newLen, newCap}})
			return
		}
	}
	switch u := ins.X.Type().Underlying().(type) {
	case *types.Pointer: // pointer to array
		at := u.Elem().Underlying().(*types.Array)
		n := fmt.Sprint(at.Len())
		hi := n
		if ins.High != nil {
			hi = e.val(ins.High).S[0]
			e.oblige("safe.index", "", "slice bounds", nil, "", "(and (<= 0 "+hi+") (<= "+hi+" "+n+"))")
		}
		e.setVal(ins, Value{S: []string{x.S[0], hi, n}})
	case *types.Slice:
		hi := x.S[1]
		if ins.High != nil {
			hi = e.val(ins.High).S[0]
			e.oblige("safe.index", "", "slice bounds", nil, "", "(and (<= 0 "+hi+") (<= "+hi+" "+x.S[2]+"))")
		}
		cp := x.S[2]
		if ins.Max != nil {
			cp = e.val(ins.Max).S[0]
		}
		e.setVal(ins, Value{S: []string{x.S[0], hi, cp}})
	default:
		unsupportedf("slice of %s", ins.X.Type())
	}
}

// ---- maps ------------------------------------------------------------------------------------

type mapPart struct{ name, sort string }

// opaqueMap: maps whose key type is not a single slot (interfaces, structs). Their contents are not modelled:
// every read yields an arbitrary value, writes are not recorded (a sound over-approximation; such maps cannot
// be ranged over or mentioned in contracts).
func opaqueMap(mt types.Type) bool {
	m, ok := mt.Underlying().(*types.Map)
	return ok && len(slotsOf(m.Key())) != 1
}

func (e *Exec) mapParts(mt types.Type) []mapPart {
	m := mt.Underlying().(*types.Map)
	ks := slotsOf(m.Key())
	if len(ks) != 1 {
		unsupportedf("map with composite key type %s", m.Key())
	}
	k := ks[0].Sort
	out := []mapPart{{mapComp(mt, "dom"), "(Array Int (Array " + k + " Bool))"}, {mapComp(mt, "len"), "(Array Int Int)"}}
	for _, sd := range slotsOf(m.Elem()) {
		out = append(out, mapPart{mapComp(mt, "val"+sd.Path), "(Array Int (Array " + k + " " + sd.Sort + "))"})
	}
	return out
}

func (e *Exec) mapKeySort(mt types.Type) string {
	return slotsOf(mt.Underlying().(*types.Map).Key())[0].Sort
}

func (e *Exec) mapDom(s *State, m Value) string {
	p := e.mapParts(m.T)[0]
	return "(select " + e.compTerm(s, p.name, p.sort) + " " + m.S[0] + ")"
}

func (e *Exec) mapHas(s *State, m Value, k Value) string {
	if opaqueMap(m.T) {
		return e.freshConst("omaphas", "Bool")
	}
	return "(select " + e.mapDom(s, m) + " " + k.S[0] + ")"
}

func (e *Exec) mapLen(s *State, m Value) string {
	if opaqueMap(m.T) {
		l := e.freshConst("omaplen", "Int")
		e.axiom("(>= " + l + " 0)")
		return l
	}
	p := e.mapParts(m.T)[1]
	return "(select " + e.compTerm(s, p.name, p.sort) + " " + m.S[0] + ")"
}

func (e *Exec) mapLookup(s *State, m Value, k Value) Value {
	mt := m.T.Underlying().(*types.Map)
	if opaqueMap(m.T) {
		v := e.freshValue("omapval", mt.Elem())
		e.assumeWF(s, v, false)
		return v
	}
	parts := e.mapParts(m.T)[2:]
	has := e.mapHas(s, m, k)
	sl := slotsOf(mt.Elem())
	out := Value{T: mt.Elem(), S: make([]string, len(sl))}
	for i, sd := range sl {
		arr := e.compTerm(s, parts[i].name, parts[i].sort)
		out.S[i] = "(ite " + has + " (select (select " + arr + " " + m.S[0] + ") " + k.S[0] + ") " + zeroSlot(sd.Sort) + ")"
	}
	return out
}

func (e *Exec) mapUpdate(s *State, m Value, k, v Value) {
	if opaqueMap(m.T) {
		return
	}
	parts := e.mapParts(m.T)
	ref := m.S[0]
	has := e.define("maphas", "Bool", e.mapHas(s, m, k))
	dom := e.compTerm(s, parts[0].name, parts[0].sort)
	e.frameCheck(parts[0].name, ref)
	e.setComp(s, parts[0].name, parts[0].sort, "(store "+dom+" "+ref+" (store (select "+dom+" "+ref+") "+k.S[0]+" true))")
	ln := e.compTerm(s, parts[1].name, parts[1].sort)
	e.setComp(s, parts[1].name, parts[1].sort, "(store "+ln+" "+ref+" (ite "+has+" (select "+ln+" "+ref+") (+ (select "+ln+" "+ref+") 1)))")
	for i, p := range parts[2:] {
		arr := e.compTerm(s, p.name, p.sort)
		e.setComp(s, p.name, p.sort, "(store "+arr+" "+ref+" (store (select "+arr+" "+ref+") "+k.S[0]+" "+v.S[i]+"))")
	}
}

func (e *Exec) mapDelete(s *State, m Value, k Value) {
	if opaqueMap(m.T) {
		return
	}
	parts := e.mapParts(m.T)
	ref := m.S[0]
	has := e.define("maphas", "Bool", e.mapHas(s, m, k))
	dom := e.compTerm(s, parts[0].name, parts[0].sort)
	e.frameCheck(parts[0].name, ref)
	e.setComp(s, parts[0].name, parts[0].sort, "(store "+dom+" "+ref+" (store (select "+dom+" "+ref+") "+k.S[0]+" false))")
	ln := e.compTerm(s, parts[1].name, parts[1].sort)
	e.setComp(s, parts[1].name, parts[1].sort, "(store "+ln+" "+ref+" (ite "+has+" (- (select "+ln+" "+ref+") 1) (select "+ln+" "+ref+")))")
}

func (e *Exec) makeMap(s *State, t types.Type) Value {
	ref := e.alloc(s, types.NewArray(tInt, 0))
	if opaqueMap(t) {
		return Value{T: t, S: []string{ref}}
	}
	parts := e.mapParts(t)
	k := e.mapKeySort(t)
	dom := e.compTerm(s, parts[0].name, parts[0].sort)
	e.setComp(s, parts[0].name, parts[0].sort, "(store "+dom+" "+ref+" ((as const (Array "+k+" Bool)) false))")
	ln := e.compTerm(s, parts[1].name, parts[1].sort)
	e.setComp(s, parts[1].name, parts[1].sort, "(store "+ln+" "+ref+" 0)")
	return Value{T: t, S: []string{ref}}
}

// mapWF: facts every map satisfies (len >= 0; empty <=> no key); emitted where a map is ranged.
func (e *Exec) mapLenFacts(s *State, m Value) {
	e.assume("(>= " + e.mapLen(s, m) + " 0)")
	e.assume("(=> (= " + m.S[0] + " 0) (= " + e.mapLen(s, m) + " 0))")
}

// ---- range over maps ---------------------------------------------------------------------------

func (e *Exec) rangeStart(ins *ssa.Range) {
	if isString(ins.X.Type()) {
		unsupportedf("range over string")
	}
	if opaqueMap(ins.X.Type()) {
		// contents are not modelled: the loop sees an arbitrary number of arbitrary well-formed (key, value) pairs
		e.vals[ins] = Value{T: ins.Type(), It: &IterState{Map: Value{T: ins.X.Type(), S: e.val(ins.X).S}, Opaque: true}}
		return
	}
	m := e.val(ins.X)
	k := e.mapKeySort(ins.X.Type())
	name := fmt.Sprintf("X|visited#%d", e.rangeOrdinal(ins))
	sort := "(Array " + k + " Bool)"
	e.setComp(e.st, name, sort, "((as const "+sort+") false)")
	cnt := fmt.Sprintf("X|count#%d", e.rangeOrdinal(ins))
	e.setComp(e.st, cnt, "Int", "0")
	e.mapLenFacts(e.st, m)
	e.vals[ins] = Value{T: ins.Type(), It: &IterState{Map: Value{T: ins.X.Type(), S: m.S}, Visited: name, KeySort: k}}
}

func (e *Exec) rangeOrdinal(r *ssa.Range) int {
	n := 0
	for _, b := range e.Fn.Blocks {
		for _, i := range b.Instrs {
			if rr, ok := i.(*ssa.Range); ok {
				n++
				if rr == r {
					return n
				}
			}
		}
	}
	return 0
}

func (e *Exec) rangeNext(ins *ssa.Next) {
	s := e.st
	it := e.val(ins.Iter).It
	if it == nil {
		unsupportedf("next on unknown iterator")
	}
	mt := it.Map.T.Underlying().(*types.Map)
	if it.Opaque {
		ok := e.freshConst("rangeok", "Bool")
		key := e.freshValue("rangekey", mt.Key())
		val := e.freshValue("rangeval", mt.Elem())
		e.assumeWF(s, key, false)
		e.assumeWF(s, val, false)
		e.vals[ins] = Value{T: ins.Type(), Tup: []Value{boolVal(ok), key, val}}
		return
	}
	sort := "(Array " + it.KeySort + " Bool)"
	vis := e.compTerm(s, it.Visited, sort)
	cntName := strings.Replace(it.Visited, "visited", "count", 1)
	cnt := e.compTerm(s, cntName, "Int")
	ok := e.freshConst("rangeok", "Bool")
	key := e.freshValue("rangekey", mt.Key())
	dom := e.mapDom(s, it.Map)
	ln := e.mapLen(s, it.Map)
	// ok: key is an unvisited member; !ok: count of visited keys equals len (all visited)
	e.assume(fmt.Sprintf("(=> %s (and (select %s %s) (not (select %s %s)) (< %s %s)))", ok, dom, key.S[0], vis, key.S[0], cnt, ln))
	e.assume(fmt.Sprintf("(=> (not %s) (and (= %s %s) (forall ((k %s)) (=> (select %s k) (select %s k)))))", ok, cnt, ln, it.KeySort, dom, vis))
	e.assume(fmt.Sprintf("(and (<= 0 %s) (<= %s %s))", cnt, cnt, ln))
	e.assumeWF(s, key, false)
	val := e.mapLookup(s, it.Map, key)
	e.setComp(s, it.Visited, sort, "(ite "+ok+" (store "+vis+" "+key.S[0]+" true) "+vis+")")
	e.setComp(s, cntName, "Int", "(ite "+ok+" (+ "+cnt+" 1) "+cnt+")")
	e.vals[ins] = Value{T: ins.Type(), Tup: []Value{boolVal(ok), key, val}}
}
