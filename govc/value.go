package main

import (
	"fmt"
	"go/types"
	"sort"
	"strings"

	"golang.org/x/tools/go/ssa"
)

// ---------------------------------------------------------------------------------------------
// Values: every Go value is a typed list of scalar SMT "slots".
//   int kinds, pointers, maps, chans, funcs : 1 slot  Int
//   bool                                     : 1 slot  Bool
//   string                                   : 1 slot  Str (uninterpreted sort)
//   float32/64                               : 2 slots (k Int: 0 fin,1 +inf,2 -inf,3 nan ; v Real)
//   slice                                    : 3 slots (arr Int, len Int, cap Int)
//   interface                                : 2 slots (tag Int (0 = nil), ref Int)
//   struct                                   : concatenation of its fields' slots
//   ghost map / set                          : 1 slot (Array K V)
// Pointers that are not first-class references (address of a local cell, of a field, of a slice
// element) exist only at generation time and carry a Loc.
// ---------------------------------------------------------------------------------------------

type SlotDesc struct {
	Path string // e.g. ".Config.NeverStop" or ".k"
	Sort string
}

type Value struct {
	T   types.Type
	S   []string // slot terms
	Loc *Loc     // interior / cell pointer (pointer types only), S == nil then
	Fn  *Closure // function value known at generation time
	Tup []Value  // tuple
	It  *IterState
}

type Closure struct {
	Fn       *ssa.Function
	Bindings []Value
}

type IterState struct {
	Map     Value  // the map value being ranged over
	Visited string // name of the state component holding the visited set
	KeySort string
	Opaque  bool // range over a map that is not modelled (struct / interface keys): arbitrary pairs, arbitrary count
}

type LocKind int

const (
	LCell LocKind = iota
	LHeap
	LElem
)

type Loc struct {
	Kind LocKind
	Cell *ssa.Alloc // LCell
	Obj  types.Type // LHeap: pointee object type; LElem: element type
	Ref  string     // LHeap: object reference; LElem: backing array reference
	Idx  string     // LElem: index
	Path string     // slot path prefix inside the object/cell/element
	T    types.Type // type of the value stored at this location
}

// GhostMap is a spec-only total map type; GhostSet is GhostMap to bool.
type GhostMap struct {
	K, V types.Type
}

func (g *GhostMap) Underlying() types.Type { return g }
func (g *GhostMap) String() string {
	return "gmap[" + typeKey(g.K) + "]" + typeKey(g.V)
}

// RealT is the spec-only type of exact reals.
type RealT struct{}

func (r *RealT) Underlying() types.Type { return r }
func (r *RealT) String() string         { return "real" }

var realType = &RealT{}

func typeKey(t types.Type) string {
	return types.TypeString(t, func(p *types.Package) string { return p.Name() })
}

func isFloat(t types.Type) bool {
	b, ok := t.Underlying().(*types.Basic)
	return ok && b.Info()&types.IsFloat != 0
}
func isInteger(t types.Type) bool {
	b, ok := t.Underlying().(*types.Basic)
	return ok && b.Info()&types.IsInteger != 0
}
func isUnsigned(t types.Type) bool {
	b, ok := t.Underlying().(*types.Basic)
	return ok && b.Info()&types.IsUnsigned != 0
}
func isBool(t types.Type) bool {
	b, ok := t.Underlying().(*types.Basic)
	return ok && b.Info()&types.IsBoolean != 0
}
func isString(t types.Type) bool {
	b, ok := t.Underlying().(*types.Basic)
	return ok && b.Info()&types.IsString != 0
}
func isInterface(t types.Type) bool {
	_, ok := t.Underlying().(*types.Interface)
	return ok
}
func isPointer(t types.Type) bool {
	_, ok := t.Underlying().(*types.Pointer)
	return ok
}
func isSlice(t types.Type) bool {
	_, ok := t.Underlying().(*types.Slice)
	return ok
}
func isMap(t types.Type) bool {
	_, ok := t.Underlying().(*types.Map)
	return ok
}
func isStruct(t types.Type) bool {
	_, ok := t.Underlying().(*types.Struct)
	return ok
}

// isRefLike: values represented by a single reference slot
func isRefLike(t types.Type) bool {
	switch t.Underlying().(type) {
	case *types.Pointer, *types.Map, *types.Chan, *types.Signature:
		return true
	}
	if b, ok := t.Underlying().(*types.Basic); ok && b.Kind() == types.UnsafePointer {
		return true
	}
	return false
}

func intBits(t types.Type) (bits int, unsigned bool) {
	b, ok := t.Underlying().(*types.Basic)
	if !ok {
		return 64, false
	}
	switch b.Kind() {
	case types.Int8:
		return 8, false
	case types.Int16:
		return 16, false
	case types.Int32:
		return 32, false
	case types.Int64, types.Int, types.UntypedInt, types.UntypedRune:
		return 64, false
	case types.Uint8:
		return 8, true
	case types.Uint16:
		return 16, true
	case types.Uint32:
		return 32, true
	case types.Uint64, types.Uint, types.Uintptr:
		return 64, true
	}
	return 64, false
}

var slotCache = map[string][]SlotDesc{}

// slotsOf returns the slot layout of a type.
func slotsOf(t types.Type) []SlotDesc {
	key := typeKey(t)
	if s, ok := slotCache[key]; ok {
		return s
	}
	var out []SlotDesc
	switch u := t.Underlying().(type) {
	case *GhostMap:
		out = []SlotDesc{{"", "(Array " + sortOfScalar(u.K) + " " + sortOfScalar(u.V) + ")"}}
	case *RealT:
		out = []SlotDesc{{"", "Real"}}
	case *types.Basic:
		switch {
		case u.Info()&types.IsBoolean != 0:
			out = []SlotDesc{{"", "Bool"}}
		case u.Info()&types.IsString != 0:
			out = []SlotDesc{{"", "Str"}}
		case u.Info()&types.IsFloat != 0:
			out = []SlotDesc{{".k", "Int"}, {".v", "Real"}}
		case u.Info()&types.IsComplex != 0:
			out = []SlotDesc{{".re", "Real"}, {".im", "Real"}}
		case u.Kind() == types.UntypedNil:
			out = []SlotDesc{{"", "Int"}}
		default:
			out = []SlotDesc{{"", "Int"}}
		}
	case *types.Pointer, *types.Map, *types.Chan, *types.Signature:
		out = []SlotDesc{{"", "Int"}}
	case *types.Slice:
		out = []SlotDesc{{".arr", "Int"}, {".len", "Int"}, {".cap", "Int"}}
	case *types.Interface:
		out = []SlotDesc{{".tag", "Int"}, {".ref", "Int"}}
	case *types.Struct:
		for i := 0; i < u.NumFields(); i++ {
			f := u.Field(i)
			for _, s := range slotsOf(f.Type()) {
				out = append(out, SlotDesc{"." + f.Name() + s.Path, s.Sort})
			}
		}
	case *types.Array:
		// arrays live only behind pointers (heap objects); as a value they are one reference to
		// their element storage
		out = []SlotDesc{{"", "Int"}}
	case *types.Tuple:
		out = nil
	case *types.TypeParam:
		out = []SlotDesc{{"", "Int"}}
	default:
		panic(fmt.Sprintf("slotsOf: unsupported type %s (%T)", t, t))
	}
	slotCache[key] = out
	return out
}

func sortOfScalar(t types.Type) string {
	s := slotsOf(t)
	if len(s) != 1 {
		panic("sortOfScalar: not scalar: " + t.String())
	}
	return s[0].Sort
}

// fieldRange returns slot offset/count and path of field i of struct type st.
func fieldRange(st *types.Struct, idx int) (off, n int, path string) {
	for i := 0; i < st.NumFields(); i++ {
		k := len(slotsOf(st.Field(i).Type()))
		if i == idx {
			return off, k, "." + st.Field(i).Name()
		}
		off += k
	}
	panic("fieldRange")
}

func zeroSlot(sort string) string {
	switch sort {
	case "Int":
		return "0"
	case "Bool":
		return "false"
	case "Real":
		return "0.0"
	case "Str":
		return "str!empty"
	}
	if strings.HasPrefix(sort, "(Array ") {
		// constant array of zero of the range sort
		_, rng := splitArraySort(sort)
		return "((as const " + sort + ") " + zeroSlot(rng) + ")"
	}
	panic("zeroSlot " + sort)
}

func splitArraySort(s string) (dom, rng string) {
	// "(Array D R)" where D,R may be nested
	inner := strings.TrimSuffix(strings.TrimPrefix(s, "(Array "), ")")
	depth := 0
	for i, c := range inner {
		switch c {
		case '(':
			depth++
		case ')':
			depth--
		case ' ':
			if depth == 0 {
				return inner[:i], inner[i+1:]
			}
		}
	}
	panic("splitArraySort " + s)
}

func zeroValue(t types.Type) Value {
	sl := slotsOf(t)
	v := Value{T: t, S: make([]string, len(sl))}
	for i, s := range sl {
		v.S[i] = zeroSlot(s.Sort)
	}
	return v
}

// ---- type ids for interface tags -------------------------------------------------------------

type typeRegistry struct {
	ids   map[string]int
	types map[string]types.Type
}

var typeReg = &typeRegistry{ids: map[string]int{}, types: map[string]types.Type{}}

// typeID returns a stable (hash-free, name-sorted-on-demand) positive id for a dynamic type.
// ids are derived from the type string so that they do not depend on encounter order.
func (r *typeRegistry) id(t types.Type) int {
	k := typeKey(t)
	if id, ok := r.ids[k]; ok {
		return id
	}
	// FNV-1a 31-bit, collisions resolved by probing
	h := uint32(2166136261)
	for i := 0; i < len(k); i++ {
		h ^= uint32(k[i])
		h *= 16777619
	}
	id := int(h%1000000) + 1000
	for {
		clash := false
		for _, v := range r.ids {
			if v == id {
				clash = true
			}
		}
		if !clash {
			break
		}
		id++
	}
	r.ids[k] = id
	r.types[k] = t
	return id
}

func (r *typeRegistry) sortedIDs() []string {
	var ks []string
	for k := range r.ids {
		ks = append(ks, k)
	}
	sort.Strings(ks)
	return ks
}

// ---- misc -------------------------------------------------------------------------------------

func sanitize(s string) string {
	var b strings.Builder
	for _, c := range s {
		switch {
		case c >= 'a' && c <= 'z', c >= 'A' && c <= 'Z', c >= '0' && c <= '9', c == '_', c == '.', c == '!', c == '$':
			b.WriteRune(c)
		case c == '*':
			b.WriteString("ptr_")
		case c == '[':
			b.WriteString("_L")
		case c == ']':
			b.WriteString("R_")
		default:
			b.WriteByte('_')
		}
	}
	return b.String()
}
