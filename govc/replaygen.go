package main

func tryReplay(root string, p *Program, o *Obligation, r *SolveResult, rf *ReplayFile) {
	rf.Note = "no replay generator for this function shape yet"
}
