package main

// Generic replay of a solver model on the real code, for functions whose parameters and results are plain data
// (integers, booleans, floats, slices of integers/floats, maps from int to int/float). The obligation's query is
// solved again with finiteness constraints (short slices, map keys in a window), the model is turned into a Go
// test that calls the real function (go test -overlay, nothing is written into the repository), and the outcome is
// compared with what the model predicts: for a postcondition the results the model says the code returns (which
// violate the clause), for a safety obligation a panic. Only a matching outcome counts as reproduced.

import (
	"bytes"
	"encoding/json"
	"fmt"
	"go/types"
	"math"
	"math/big"
	"os"
	"os/exec"
	"path/filepath"
	"regexp"
	"strconv"
	"strings"
)

const (
	rpMaxSlice = 8
	rpKeyLo    = -4
	rpKeyHi    = 40
)

type rpKind int

const (
	rpInt rpKind = iota
	rpBool
	rpFloat
	rpSliceInt
	rpSliceFloat
	rpMapIntInt
	rpMapIntFloat
	rpString // strings are not extractable from the model: the empty string is passed (a mismatch shows as "not confirmed")
	rpUnsupported
)

func rpKindOf(t types.Type) rpKind {
	switch u := t.Underlying().(type) {
	case *types.Basic:
		switch {
		case u.Info()&types.IsBoolean != 0:
			return rpBool
		case u.Info()&types.IsInteger != 0:
			return rpInt
		case u.Info()&types.IsFloat != 0:
			return rpFloat
		case u.Info()&types.IsString != 0:
			return rpString
		}
	case *types.Slice:
		switch rpKindOf(u.Elem()) {
		case rpInt:
			return rpSliceInt
		case rpFloat:
			return rpSliceFloat
		}
	case *types.Map:
		if rpKindOf(u.Key()) == rpInt {
			switch rpKindOf(u.Elem()) {
			case rpInt:
				return rpMapIntInt
			case rpFloat:
				return rpMapIntFloat
			}
		}
	}
	return rpUnsupported
}

type rpQuery struct {
	terms []string
	vals  map[string]string
}

func (q *rpQuery) add(t string) { q.terms = append(q.terms, t) }

func declared(text, name string) bool {
	return strings.Contains(text, "(declare-const "+name+" ") || strings.Contains(text, "(define-fun "+name+" ")
}

func tryReplay(root string, p *Program, o *Obligation, r *SolveResult, rf *ReplayFile) {
	rc := o.rp
	if rc == nil || rc.fn == nil {
		rf.Note = "no replay: obligation carries no function context"
		return
	}
	fn := rc.fn
	if fn.Parent() != nil || fn.Signature.Recv() != nil || fn.Pkg == nil || fn.Origin() != nil {
		rf.Note = "no generic replay: only package-level, non-generic functions over plain data are replayed (use a hand-written recipe)"
		return
	}
	isPost := o.Class == "post"
	isSafe := strings.HasPrefix(o.Class, "safe.") || o.Class == "nopanic"
	if !isPost && !isSafe {
		rf.Note = "no generic replay for obligation class " + o.Class + " (only post and safe.* are replayed)"
		return
	}
	for _, pv := range rc.params {
		if rpKindOf(pv.T) == rpUnsupported {
			rf.Note = "no generic replay: parameter type " + pv.T.String() + " is not plain data"
			return
		}
	}
	if isPost {
		// the comparison below observes parameters and results only: the clause must not speak about anything else
		for _, w := range []string{"fresh(", "ref(", "arrayOf(", "cap(", "W", "addrof("} {
			if containsWord(o.Clause, w) {
				rf.Note = "no generic replay: the clause mentions " + strings.TrimSuffix(w, "(") + ", which a test cannot observe"
				return
			}
		}
		for g := range currentGhostNames {
			if containsWord(o.Clause, g) {
				rf.Note = "no generic replay: the clause mentions ghost state (" + g + ")"
				return
			}
		}
	}
	sig := fn.Signature
	for i := 0; i < sig.Results().Len(); i++ {
		k := rpKindOf(sig.Results().At(i).Type())
		if k == rpUnsupported || k == rpMapIntInt || k == rpMapIntFloat || k == rpString {
			rf.Note = "no generic replay: result type " + sig.Results().At(i).Type().String() + " is not replayable"
			return
		}
	}
	base := o.smt()
	if i := strings.LastIndex(base, "(check-sat)"); i >= 0 {
		base = base[:i]
	}
	var extra []string
	q := &rpQuery{}
	elemInit := func(t types.Type, path string) string {
		n := rc.init[elemComp(t, path)]
		if n == "" || !declared(base, n) {
			return ""
		}
		return n
	}
	mapInit := func(mt types.Type, part string) string {
		n := rc.init[mapComp(mt, part)]
		if n == "" || !declared(base, n) {
			return ""
		}
		return n
	}
	// finiteness constraints and the terms to read back
	for _, pv := range rc.params {
		switch rpKindOf(pv.T) {
		case rpInt, rpBool:
			q.add(pv.S[0])
		case rpFloat:
			q.add(pv.S[0])
			q.add(pv.S[1])
		case rpSliceInt, rpSliceFloat:
			et := pv.T.Underlying().(*types.Slice).Elem()
			extra = append(extra, fmt.Sprintf("(assert (and (<= 0 %s) (<= %s %d)))", pv.S[1], pv.S[1], rpMaxSlice))
			q.add(pv.S[0])
			q.add(pv.S[1])
			for i := 0; i < rpMaxSlice; i++ {
				for _, sd := range slotsOf(et) {
					if n := elemInit(et, sd.Path); n != "" {
						q.add(fmt.Sprintf("(select (select %s %s) %d)", n, pv.S[0], i))
					}
				}
			}
		case rpMapIntInt, rpMapIntFloat:
			mt := pv.T
			q.add(pv.S[0])
			dom := mapInit(mt, "dom")
			if dom != "" {
				extra = append(extra, fmt.Sprintf("(assert (forall ((k!rp Int)) (=> (select (select %s %s) k!rp) (and (<= %d k!rp) (<= k!rp %d)))))", dom, pv.S[0], rpKeyLo, rpKeyHi))
				for k := rpKeyLo; k <= rpKeyHi; k++ {
					q.add(fmt.Sprintf("(select (select %s %s) %s)", dom, pv.S[0], smtInt(k)))
				}
			}
			for _, sd := range slotsOf(mt.Underlying().(*types.Map).Elem()) {
				if n := mapInit(mt, "val"+sd.Path); n != "" {
					for k := rpKeyLo; k <= rpKeyHi; k++ {
						q.add(fmt.Sprintf("(select (select %s %s) %s)", n, pv.S[0], smtInt(k)))
					}
				}
			}
			if ln := mapInit(mt, "len"); ln != "" && dom != "" {
				// the model's length must be the number of keys: state it for the window (a sum of 0/1 terms)
				var parts []string
				for k := rpKeyLo; k <= rpKeyHi; k++ {
					parts = append(parts, fmt.Sprintf("(ite (select (select %s %s) %s) 1 0)", dom, pv.S[0], smtInt(k)))
				}
				extra = append(extra, fmt.Sprintf("(assert (= (select %s %s) (+ %s)))", ln, pv.S[0], strings.Join(parts, " ")))
			}
		}
	}
	if isPost {
		for _, rv := range rc.results {
			switch rpKindOf(rv.T) {
			case rpInt, rpBool:
				q.add(rv.S[0])
			case rpFloat:
				q.add(rv.S[0])
				q.add(rv.S[1])
			case rpSliceInt, rpSliceFloat:
				et := rv.T.Underlying().(*types.Slice).Elem()
				q.add(rv.S[0])
				q.add(rv.S[1])
				extra = append(extra, fmt.Sprintf("(assert (<= %s %d))", rv.S[1], 4*rpMaxSlice))
				for i := 0; i < 4*rpMaxSlice; i++ {
					for _, sd := range slotsOf(et) {
						if term := rc.exitE[elemComp(et, sd.Path)]; term != "" {
							q.add(fmt.Sprintf("(select (select %s %s) %d)", term, rv.S[0], i))
						} else if n := elemInit(et, sd.Path); n != "" {
							q.add(fmt.Sprintf("(select (select %s %s) %d)", n, rv.S[0], i))
						}
					}
				}
			}
		}
	}
	text := base + strings.Join(extra, "\n") + "\n(check-sat)\n(get-value (" + strings.Join(q.terms, "\n ") + "))\n"
	work := filepath.Join(root, ".work", rf.Property, "replay", "gen")
	_ = os.MkdirAll(work, 0755)
	stem := sanitize(o.Name)
	if len(stem) > 120 {
		stem = stem[:120] + fmt.Sprintf("_%x", hashString(o.Name))
	}
	qf := filepath.Join(work, stem+".smt2")
	_ = os.WriteFile(qf, []byte(text), 0644)
	out, _ := exec.Command("z3-new", "-T:30", qf).CombinedOutput()
	first := strings.TrimSpace(strings.SplitN(string(out), "\n", 2)[0])
	if first != "sat" {
		rf.Note = "generic replay: the query with finite inputs (slices <= " + strconv.Itoa(rpMaxSlice) + ", map keys in " + strconv.Itoa(rpKeyLo) + ".." + strconv.Itoa(rpKeyHi) + ") is " + first + "; no concrete input extracted"
		return
	}
	vals := parseValueList(string(out), q.terms)
	if vals == nil {
		rf.Note = "generic replay: could not parse the model"
		return
	}
	q.vals = vals
	// build the Go test
	var args []string
	var show []string
	for i, pv := range rc.params {
		lit, ok := rpLiteral(q, pv, rc, base, false)
		if !ok {
			rf.Note = "generic replay: cannot build a Go value for parameter " + rc.names[i]
			return
		}
		args = append(args, lit)
		show = append(show, rc.names[i]+" = "+lit)
	}
	pkgDir := strings.TrimPrefix(fn.Pkg.Pkg.Path(), repoModule+"/")
	testName := "TestGovcReplay"
	var b strings.Builder
	fmt.Fprintf(&b, "package %s\n\nimport (\n\t\"fmt\"\n\t\"math\"\n\t\"testing\"\n)\n\nvar _ = math.NaN\n\n", fn.Pkg.Pkg.Name())
	fmt.Fprintf(&b, "func %s(t *testing.T) {\n\tdefer func() {\n\t\tif r := recover(); r != nil {\n\t\t\tfmt.Printf(\"REPLAY-PANIC %%v\\n\", r)\n\t\t}\n\t}()\n", testName)
	nres := sig.Results().Len()
	var lhs []string
	for i := 0; i < nres; i++ {
		lhs = append(lhs, fmt.Sprintf("r%d", i))
	}
	call := fn.Name() + "(" + strings.Join(args, ", ") + ")"
	if nres > 0 {
		fmt.Fprintf(&b, "\t%s := %s\n", strings.Join(lhs, ", "), call)
		for i := 0; i < nres; i++ {
			switch rpKindOf(sig.Results().At(i).Type()) {
			case rpFloat:
				fmt.Fprintf(&b, "\tfmt.Printf(\"REPLAY-RESULT %d %%x\\n\", math.Float64bits(float64(r%d)))\n", i, i)
			case rpSliceFloat:
				fmt.Fprintf(&b, "\tfmt.Printf(\"REPLAY-RESULT %d len=%%d\", len(r%d))\n\tfor _, x := range r%d {\n\t\tfmt.Printf(\" %%x\", math.Float64bits(float64(x)))\n\t}\n\tfmt.Println()\n", i, i, i)
			case rpSliceInt:
				fmt.Fprintf(&b, "\tfmt.Printf(\"REPLAY-RESULT %d len=%%d\", len(r%d))\n\tfor _, x := range r%d {\n\t\tfmt.Printf(\" %%d\", x)\n\t}\n\tfmt.Println()\n", i, i, i)
			default:
				fmt.Fprintf(&b, "\tfmt.Printf(\"REPLAY-RESULT %d %%v\\n\", r%d)\n", i, i)
			}
		}
	} else {
		fmt.Fprintf(&b, "\t%s\n", call)
	}
	fmt.Fprintf(&b, "\tfmt.Println(\"REPLAY-RETURNED\")\n}\n")
	tf := filepath.Join(work, stem+"_test.go")
	_ = os.WriteFile(tf, []byte(b.String()), 0644)
	ov, _ := json.Marshal(map[string]interface{}{"Replace": map[string]string{filepath.Join(currentRepo, pkgDir, "zz_govc_replay_test.go"): tf}})
	ovf := filepath.Join(work, stem+"_overlay.json")
	_ = os.WriteFile(ovf, ov, 0644)
	cmd := exec.Command("go", "test", "-v", "-overlay", ovf, "-vet=off", "-count=1", "-timeout", "60s", "-run", "^"+testName+"$", "./"+pkgDir+"/")
	cmd.Dir = currentRepo
	cmd.Env = append(os.Environ(), "GOFLAGS=-mod=mod", "GOPROXY=off", "GOSUMDB=off", "GOTOOLCHAIN=local", "CGO_ENABLED=0")
	var buf bytes.Buffer
	cmd.Stdout, cmd.Stderr = &buf, &buf
	_ = cmd.Run()
	var keep []string
	for _, l := range strings.Split(buf.String(), "\n") {
		if strings.HasPrefix(l, "REPLAY-") || strings.HasPrefix(l, "panic") || strings.Contains(l, "[build failed]") || strings.HasPrefix(l, "#") {
			keep = append(keep, l)
		}
	}
	rf.ReplayTest = tf
	rf.ReplayCmd = "cd " + currentRepo + " && go test -v -overlay " + ovf + " -vet=off -count=1 -run '^" + testName + "$' ./" + pkgDir + "/"
	rf.Transcript = "input: " + strings.Join(show, "; ") + "\n" + strings.Join(keep, "\n")
	panicked := strings.Contains(buf.String(), "REPLAY-PANIC")
	returned := strings.Contains(buf.String(), "REPLAY-RETURNED")
	switch {
	case isSafe:
		rf.Reproduced = panicked
		if !panicked {
			rf.Note = "generic replay: the real function did not panic on the model's input (spurious or environment-dependent)"
		}
	case isPost && returned:
		ok := true
		var exp []string
		for i, rv := range rc.results {
			want, good := rpExpected(q, rv, rc, base)
			if !good {
				ok = false
				exp = append(exp, fmt.Sprintf("result %d: model value not extractable", i))
				continue
			}
			got := ""
			pre := fmt.Sprintf("REPLAY-RESULT %d ", i)
			for _, l := range keep {
				if strings.HasPrefix(l, pre) {
					got = strings.TrimSpace(strings.TrimPrefix(l, pre))
				}
			}
			exp = append(exp, fmt.Sprintf("result %d: model predicts %s, real code returned %s", i, want, got))
			if got != want {
				ok = false
			}
		}
		rf.Transcript += "\n" + strings.Join(exp, "\n")
		rf.Reproduced = ok
		if !ok {
			rf.Note = "generic replay: the real function's results differ from the model's prediction on this input (counterexample not confirmed)"
		} else {
			rf.Note = "the real function returns exactly the results of the solver's counterexample, which violate the clause"
		}
	default:
		rf.Note = "generic replay: the real function panicked or did not return on the model's input while the model predicts a normal return"
	}
}

func smtInt(k int) string {
	if k < 0 {
		return fmt.Sprintf("(- %d)", -k)
	}
	return strconv.Itoa(k)
}

// parseValueList parses "((term value) (term value) ...)" in order.
func parseValueList(out string, terms []string) map[string]string {
	i := strings.Index(out, "((")
	if i < 0 {
		return nil
	}
	body := out[i+1:]
	m := map[string]string{}
	depth, start, k := 0, -1, 0
	for j := 0; j < len(body); j++ {
		switch body[j] {
		case '(':
			if depth == 0 {
				start = j
			}
			depth++
		case ')':
			depth--
			if depth == 0 && start >= 0 {
				if k >= len(terms) {
					return m
				}
				inner := strings.TrimSpace(body[start+1 : j])
				// the value is the last top-level s-expression / atom of inner
				m[terms[k]] = lastSexp(inner)
				k++
				start = -1
			}
			if depth < 0 {
				return m
			}
		}
	}
	return m
}

func lastSexp(s string) string {
	s = strings.TrimSpace(s)
	if strings.HasSuffix(s, ")") {
		depth := 0
		for j := len(s) - 1; j >= 0; j-- {
			switch s[j] {
			case ')':
				depth++
			case '(':
				depth--
				if depth == 0 {
					return s[j:]
				}
			}
		}
		return s
	}
	if j := strings.LastIndexAny(s, " \t\n"); j >= 0 {
		return s[j+1:]
	}
	return s
}

var numRe = regexp.MustCompile(`^-?[0-9]+(\.[0-9]+)?$`)

// smtRat evaluates a numeric model value: 5, 5.0, (- 5), (/ 1.0 3.0), (- (/ 1 3)).
func smtRat(s string) (*big.Rat, bool) {
	s = strings.TrimSpace(s)
	if numRe.MatchString(s) {
		r, ok := new(big.Rat).SetString(s)
		return r, ok
	}
	if strings.HasPrefix(s, "(") && strings.HasSuffix(s, ")") {
		inner := strings.TrimSpace(s[1 : len(s)-1])
		switch {
		case strings.HasPrefix(inner, "- "):
			r, ok := smtRat(inner[2:])
			if !ok {
				return nil, false
			}
			return r.Neg(r), true
		case strings.HasPrefix(inner, "/ "):
			parts := splitTop(inner[2:])
			if len(parts) != 2 {
				return nil, false
			}
			a, ok1 := smtRat(parts[0])
			b, ok2 := smtRat(parts[1])
			if !ok1 || !ok2 || b.Sign() == 0 {
				return nil, false
			}
			return a.Quo(a, b), true
		}
	}
	return nil, false
}

func splitTop(s string) []string {
	var out []string
	depth, start := 0, -1
	for j := 0; j <= len(s); j++ {
		if j == len(s) || ((s[j] == ' ' || s[j] == '\t' || s[j] == '\n') && depth == 0) {
			if start >= 0 {
				out = append(out, s[start:j])
				start = -1
			}
			continue
		}
		if start < 0 {
			start = j
		}
		if s[j] == '(' {
			depth++
		} else if s[j] == ')' {
			depth--
		}
	}
	return out
}

func rpFloatOf(q *rpQuery, kTerm, vTerm string) (float64, bool) {
	kr, ok := smtRat(q.vals[kTerm])
	if !ok {
		return 0, false
	}
	switch kr.Num().Int64() {
	case 1:
		return math.Inf(1), true
	case 2:
		return math.Inf(-1), true
	case 3:
		return math.NaN(), true
	}
	vr, ok := smtRat(q.vals[vTerm])
	if !ok {
		return 0, false
	}
	f, _ := vr.Float64()
	return f, true
}

func goFloat(f float64) string {
	switch {
	case math.IsNaN(f):
		return "math.NaN()"
	case math.IsInf(f, 1):
		return "math.Inf(1)"
	case math.IsInf(f, -1):
		return "math.Inf(-1)"
	}
	return "math.Float64frombits(0x" + strconv.FormatUint(math.Float64bits(f), 16) + ") /* " + strconv.FormatFloat(f, 'g', -1, 64) + " */"
}

// rpLiteral builds the Go expression for a parameter from the model.
func rpLiteral(q *rpQuery, pv Value, rc *replayCtx, base string, _ bool) (string, bool) {
	tn := types.TypeString(pv.T, func(p *types.Package) string {
		if p.Path() == rc.fn.Pkg.Pkg.Path() {
			return ""
		}
		return p.Name()
	})
	switch rpKindOf(pv.T) {
	case rpInt:
		r, ok := smtRat(q.vals[pv.S[0]])
		if !ok || !r.IsInt() {
			return "", false
		}
		return tn + "(" + r.Num().String() + ")", true
	case rpBool:
		return q.vals[pv.S[0]], q.vals[pv.S[0]] == "true" || q.vals[pv.S[0]] == "false"
	case rpString:
		return tn + "(\"\")", true
	case rpFloat:
		f, ok := rpFloatOf(q, pv.S[0], pv.S[1])
		if !ok {
			return "", false
		}
		return tn + "(" + goFloat(f) + ")", true
	case rpSliceInt, rpSliceFloat:
		lr, ok := smtRat(q.vals[pv.S[1]])
		if !ok {
			return "", false
		}
		ar, _ := smtRat(q.vals[pv.S[0]])
		n := int(lr.Num().Int64())
		if ar != nil && ar.Sign() == 0 && n == 0 {
			return tn + "(nil)", true
		}
		et := pv.T.Underlying().(*types.Slice).Elem()
		var els []string
		for i := 0; i < n; i++ {
			if rpKindOf(et) == rpInt {
				t := fmt.Sprintf("(select (select %s %s) %d)", rc.init[elemComp(et, "")], pv.S[0], i)
				v := "0"
				if s, have := q.vals[t]; have {
					r, ok := smtRat(s)
					if !ok {
						return "", false
					}
					v = r.Num().String()
				}
				els = append(els, v)
			} else {
				kt := fmt.Sprintf("(select (select %s %s) %d)", rc.init[elemComp(et, ".k")], pv.S[0], i)
				vt := fmt.Sprintf("(select (select %s %s) %d)", rc.init[elemComp(et, ".v")], pv.S[0], i)
				f := 0.0
				if _, have := q.vals[vt]; have {
					var ok bool
					if _, hk := q.vals[kt]; !hk {
						q.vals[kt] = "0"
					}
					f, ok = rpFloatOf(q, kt, vt)
					if !ok {
						return "", false
					}
				}
				els = append(els, goFloat(f))
			}
		}
		return tn + "{" + strings.Join(els, ", ") + "}", true
	case rpMapIntInt, rpMapIntFloat:
		mr, _ := smtRat(q.vals[pv.S[0]])
		mt := pv.T.Underlying().(*types.Map)
		dom := rc.init[mapComp(pv.T, "dom")]
		var els []string
		for k := rpKeyLo; k <= rpKeyHi; k++ {
			dt := fmt.Sprintf("(select (select %s %s) %s)", dom, pv.S[0], smtInt(k))
			if q.vals[dt] != "true" {
				continue
			}
			if rpKindOf(mt.Elem()) == rpInt {
				vt := fmt.Sprintf("(select (select %s %s) %s)", rc.init[mapComp(pv.T, "val")], pv.S[0], smtInt(k))
				v := "0"
				if s, have := q.vals[vt]; have {
					r, ok := smtRat(s)
					if !ok {
						return "", false
					}
					v = r.Num().String()
				}
				els = append(els, fmt.Sprintf("%d: %s", k, v))
			} else {
				kt := fmt.Sprintf("(select (select %s %s) %s)", rc.init[mapComp(pv.T, "val.k")], pv.S[0], smtInt(k))
				vt := fmt.Sprintf("(select (select %s %s) %s)", rc.init[mapComp(pv.T, "val.v")], pv.S[0], smtInt(k))
				f := 0.0
				if _, have := q.vals[vt]; have {
					if _, hk := q.vals[kt]; !hk {
						q.vals[kt] = "0"
					}
					var ok bool
					f, ok = rpFloatOf(q, kt, vt)
					if !ok {
						return "", false
					}
				}
				els = append(els, fmt.Sprintf("%d: %s", k, goFloat(f)))
			}
		}
		if mr != nil && mr.Sign() == 0 && len(els) == 0 {
			return tn + "(nil)", true
		}
		return tn + "{" + strings.Join(els, ", ") + "}", true
	}
	return "", false
}

// rpExpected renders what the model predicts for a result in the format the test prints.
func rpExpected(q *rpQuery, rv Value, rc *replayCtx, base string) (string, bool) {
	switch rpKindOf(rv.T) {
	case rpInt:
		r, ok := smtRat(q.vals[rv.S[0]])
		if !ok || !r.IsInt() {
			return "", false
		}
		return r.Num().String(), true
	case rpBool:
		return q.vals[rv.S[0]], true
	case rpFloat:
		f, ok := rpFloatOf(q, rv.S[0], rv.S[1])
		if !ok {
			return "", false
		}
		return strconv.FormatUint(math.Float64bits(f), 16), true
	case rpSliceInt:
		lr, ok := smtRat(q.vals[rv.S[1]])
		if !ok {
			return "", false
		}
		n := int(lr.Num().Int64())
		et := rv.T.Underlying().(*types.Slice).Elem()
		s := fmt.Sprintf("len=%d", n)
		for i := 0; i < n; i++ {
			term := rc.exitE[elemComp(et, "")]
			if term == "" {
				term = rc.init[elemComp(et, "")]
			}
			t := fmt.Sprintf("(select (select %s %s) %d)", term, rv.S[0], i)
			r, ok := smtRat(q.vals[t])
			if !ok {
				return "", false
			}
			s += " " + r.Num().String()
		}
		return s, true
	}
	return "", false
}

var currentGhostNames = map[string]bool{}
var currentRepo = "/repo"

func containsWord(text, w string) bool {
	if strings.HasSuffix(w, "(") {
		return strings.Contains(text, w)
	}
	re := regexp.MustCompile(`(^|[^A-Za-z0-9_.])` + regexp.QuoteMeta(w) + `($|[^A-Za-z0-9_])`)
	return re.MatchString(text)
}
