package main

import (
	"encoding/json"
	"flag"
	"fmt"
	"os"
	"os/exec"
	"path/filepath"
	"runtime"
	"sort"
	"strings"
	"time"

	"golang.org/x/tools/go/ssa"
)

type KnownFinding struct {
	Property   string `json:"property"`
	Obligation string `json:"obligation"` // exact obligation name
	What       string `json:"what"`
	Witness    string `json:"witness,omitempty"`
	Replay     string `json:"replay,omitempty"` // name of a replay recipe under /verif/replays
}

type FindingsFile struct {
	Known []KnownFinding `json:"known"`
	Fixed []string       `json:"fixed"`
}

type Evidence struct {
	PropertyID  string                 `json:"property_id"`
	Tier        string                 `json:"tier"`
	Seed        int                    `json:"seed"`
	Level       string                 `json:"level"`
	Coverage    map[string]interface{} `json:"coverage"`
	Assumptions []string               `json:"assumptions"`
	WallS       float64                `json:"wall_s"`
	Violations  int                    `json:"violations"`
}

func verifRoot() string {
	if v := os.Getenv("VERIF_ROOT"); v != "" {
		return v
	}
	exe, err := os.Executable()
	if err == nil {
		return filepath.Dir(filepath.Dir(exe))
	}
	return "/verif"
}

var knownFailing = map[string]bool{}

func cmdCheck(args []string) int {
	fs := flag.NewFlagSet("check", flag.ExitOnError)
	prop := fs.String("prop", "", "property id")
	tier := fs.String("tier", "quick", "quick|thorough")
	repo := fs.String("repo", "/repo", "repository root")
	level := fs.String("level", "proof", "evidence level")
	only := fs.String("only", "", "restrict to functions containing this substring (debug)")
	verbose := fs.Bool("v", false, "verbose")
	timeout := fs.Int("timeout", 0, "per-obligation timeout (s)")
	noEvidence := fs.Bool("noevidence", false, "do not write evidence/<id>.json (used for runs on scratch copies)")
	_ = fs.Parse(args)
	t0 := time.Now()
	root := verifRoot()
	if *prop == "" {
		fmt.Fprintln(os.Stderr, "check: --prop required")
		return 2
	}
	currentTier = *tier
	tmo := *timeout
	if tmo == 0 {
		tmo = 20
		if *tier == "thorough" {
			tmo = 60
		}
	}
	p, err := loadProgram(*repo)
	if err != nil {
		fmt.Println("UNDECIDED property=" + *prop + " load failed: " + err.Error())
		return 2
	}
	tLoad := time.Since(t0).Seconds()
	cs, err := loadContracts(p)
	if err != nil {
		fmt.Println("UNDECIDED property=" + *prop + " contract files: " + err.Error())
		return 2
	}
	// obligations recorded as known findings are never used as assumptions for later clauses of the same function
	knownFailing = map[string]bool{}
	{
		var kf FindingsFile
		if b, err := os.ReadFile(filepath.Join(root, "known_findings.json")); err == nil {
			_ = json.Unmarshal(b, &kf)
		}
		for _, k := range kf.Known {
			knownFailing[k.Obligation] = true
		}
	}
	currentRepo = *repo
	currentGhostNames = map[string]bool{}
	for g := range cs.Ghost {
		currentGhostNames[g] = true
	}
	fns := p.allFunctions()
	if *verbose {
		fmt.Fprintf(os.Stderr, "load %.1fs, functions %.1fs\n", tLoad, time.Since(t0).Seconds()-tLoad)
	}
	// roots and closure
	var queue []string
	for _, k := range sortedKeys(cs.ByKey) {
		c := cs.ByKey[k]
		if !c.Extern && c.hasProp(*prop) {
			queue = append(queue, k)
		}
	}
	if len(queue) == 0 {
		fmt.Printf("UNDECIDED property=%s no function carries 'props %s'\n", *prop, *prop)
		return 2
	}
	done := map[string]*FuncResult{}
	var order []string
	var undecided []string
	for len(queue) > 0 {
		k := queue[0]
		queue = queue[1:]
		if _, ok := done[k]; ok {
			continue
		}
		fn := fns[strings.TrimSuffix(k, "#impl")]
		con := cs.ByKey[k]
		if fn == nil {
			// a contract for a function literal that no longer exists while its enclosing function does: the contract
			// is unused (nothing can call the literal); the enclosing function is verified as it stands now
			if i := strings.Index(k, "$"); i > 0 && fns[k[:i]] != nil {
				fmt.Fprintf(os.Stderr, "note: contract for %s ignored (the function literal no longer exists)\n", shortKey(k))
				done[k] = &FuncResult{Key: k}
				continue
			}
			done[k] = &FuncResult{Key: k, Err: "BINDING: function " + k + " named by a contract does not exist"}
			undecided = append(undecided, done[k].Err)
			continue
		}
		if *only != "" && !strings.Contains(k, *only) {
			done[k] = &FuncResult{Key: k}
			continue
		}
		r := verifyFunction(p, cs, fn, con, *prop)
		done[k] = r
		order = append(order, k)
		if r.Err != "" {
			undecided = append(undecided, k+": "+r.Err)
			continue
		}
		for _, c := range r.Callees {
			cc := cs.ByKey[c]
			if cc != nil && !cc.Extern {
				if _, seen := done[c]; !seen && os.Getenv("GOVC_TRACE_CLOSURE") != "" {
					fmt.Fprintf(os.Stderr, "closure: %s <- %s\n", shortKey(c), shortKey(k))
				}
				queue = append(queue, c)
			}
		}
	}
	if len(undecided) > 0 {
		for _, u := range undecided {
			fmt.Printf("UNDECIDED property=%s %s\n", *prop, u)
		}
		return 2
	}
	var obls []*Obligation
	for _, k := range order {
		if done[k].VC != nil {
			obls = append(obls, done[k].VC.obls...)
		}
	}
	// lemmas
	for _, lm := range cs.Lemmas {
		has := false
		for _, pr := range lm.Props {
			if pr == *prop {
				has = true
			}
		}
		if !has {
			continue
		}
		lo, lerr := verifyLemma(p, cs, fns, lm, *prop)
		if lerr != "" {
			fmt.Printf("UNDECIDED property=%s lemma %s: %s\n", *prop, lm.Name, lerr)
			return 2
		}
		obls = append(obls, lo...)
	}
	if *verbose {
		fmt.Fprintf(os.Stderr, "vcgen done at %.1fs\n", time.Since(t0).Seconds())
	}
	work := filepath.Join(root, ".work", *prop+os.Getenv("GOVC_WORK_SUFFIX"))
	_ = os.RemoveAll(work)
	_ = os.MkdirAll(work, 0755)
	loadSolverHints(root)
	results := solveAll(obls, filepath.Join(work, "smt"), tmo, runtime.NumCPU())
	if os.Getenv("GOVC_WRITE_HINTS") != "" {
		writeSolverHints(root, obls, results)
	}

	// known findings
	var ff FindingsFile
	if b, err := os.ReadFile(filepath.Join(root, "known_findings.json")); err == nil {
		_ = json.Unmarshal(b, &ff)
	}
	known := map[string]KnownFinding{}
	for _, k := range ff.Known {
		if k.Property == *prop {
			known[k.Obligation] = k
		}
	}
	nProve, nDis, nCover, nCoverOK := 0, 0, 0, 0
	solverTime := 0.0
	bySolver := map[string]int{}
	var failed []*SolveResult
	var failedObl []*Obligation
	var vacuous []string
	var samples []interface{}
	knownSeen := map[string]bool{}
	for i, r := range results {
		o := obls[i]
		solverTime += r.Seconds
		if o.Cover {
			if *verbose {
				fmt.Printf("  %-8s %-7s %6.2fs %s\n", r.Verdict, r.Solver, r.Seconds, o.Name)
			}
			nCover++
			switch r.Verdict {
			case "sat":
				nCoverOK++
			case "unsat":
				vacuous = append(vacuous, o.Name)
			}
			continue
		}
		nProve++
		if r.Verdict == "unsat" {
			nDis++
			bySolver[r.Solver]++
			if len(samples) < 6 {
				samples = append(samples, map[string]interface{}{"obligation": o.Name, "clause": o.Clause, "verdict": r.Verdict, "solver": r.Solver, "seconds": round3(r.Seconds), "smt_bytes": r.Bytes})
			}
		} else {
			failed = append(failed, r)
			failedObl = append(failedObl, o)
		}
		if *verbose {
			fmt.Printf("  %-8s %-7s %6.2fs %s\n", r.Verdict, r.Solver, r.Seconds, o.Name)
		}
	}
	exit := 0
	nViol := 0
	var findingLines []string
	for i, r := range failed {
		o := failedObl[i]
		if kf, ok := known[o.Name]; ok {
			knownSeen[o.Name] = true
			findingLines = append(findingLines, fmt.Sprintf("KNOWN-FINDING: property=%s %s [%s]", *prop, kf.What, o.Name))
			continue
		}
		nViol++
		rp := writeReplay(root, p, *prop, o, r)
		suffix := ""
		if !rp.Reproduced {
			suffix = " no-failing-input-found"
		}
		fmt.Printf("VIOLATION property=%s replay=%s obligation=%s verdict=%s%s\n", *prop, rp.Path, o.Name, r.Verdict, suffix)
		exit = 1
	}
	for _, v := range vacuous {
		nViol++
		rp := writeVacuity(root, *prop, v)
		fmt.Printf("VIOLATION property=%s replay=%s obligation=%s vacuous-precondition no-failing-input-found\n", *prop, rp, v)
		exit = 1
	}
	for _, l := range findingLines {
		fmt.Println(l)
	}
	// a known finding whose obligation now discharges is reported (informational, not an alarm)
	for name, kf := range known {
		if !knownSeen[name] {
			found := false
			for _, o := range obls {
				if o.Name == name {
					found = true
				}
			}
			if found {
				fmt.Printf("NOTE: known finding no longer fails (obligation discharged): %s [%s]\n", kf.What, name)
			} else {
				fmt.Printf("NOTE: known finding's obligation no longer exists: %s [%s]\n", kf.What, name)
			}
		}
	}
	// thorough tier: replay recipes of this property on the real code (canaries / regressions)
	var recipeLines []string
	{
		for _, rc := range loadRecipes(root) {
			if *tier != "thorough" && !rc.Quick {
				continue
			}
			if *repo != "/repo" && os.Getenv("GOVC_WORK_SUFFIX") == "" {
				continue
			}
			has := false
			for _, pr := range rc.Properties {
				if pr == *prop {
					has = true
				}
			}
			if !has {
				continue
			}
			passed, tr := runRecipe(root, *repo, rc)
			recipeLines = append(recipeLines, fmt.Sprintf("recipe %s expect=%s passed=%v", rc.Name, rc.Expect, passed))
			if rc.Expect == "pass" && !passed && !strings.Contains(tr, "VIOLATED") {
				// the test failed without a property assertion firing (build problem, environment, cleanup race):
				// run it once more; if it still fails that way it is reported as not evaluated, not as a violation
				passed, tr = runRecipe(root, *repo, rc)
				if !passed && !strings.Contains(tr, "VIOLATED") {
					fmt.Printf("NOTE: recipe %s could not be evaluated (the test failed without a property assertion): %s\n", rc.Name, strings.ReplaceAll(tr, "\n", " | "))
					recipeLines = append(recipeLines, fmt.Sprintf("recipe %s not evaluated", rc.Name))
					continue
				}
			}
			switch {
			case rc.Expect == "pass" && !passed:
				nViol++
				path := filepath.Join(work, "replay", "recipe_"+rc.Name+".json")
				_ = os.MkdirAll(filepath.Dir(path), 0755)
				b, _ := json.MarshalIndent(map[string]interface{}{"property": *prop, "recipe": rc.Name, "what": rc.What, "transcript": tr, "reproduced_on_real_code": true,
					"replay_cmd": "bin/govc recipes " + rc.Name}, "", " ")
				_ = os.WriteFile(path, b, 0644)
				kind := "a repaired defect reproduces again on the real code"
				if rc.Status == "bounded" {
					kind = "the bounded stand-in check fails on the real code"
				} else if rc.Status == "assumption-probe" {
					kind = "an assumed contract of a dependency is contradicted by the real code"
				}
				fmt.Printf("VIOLATION property=%s replay=%s %s: %s\n", *prop, path, kind, rc.What)
				exit = 1
			case rc.Expect == "fail" && passed:
				fmt.Printf("NOTE: known finding no longer reproduces on the real code: %s (%s)\n", rc.Name, rc.What)
			}
		}
	}
	// thorough tier: canaries - every seeded property-breaking change of this property (seeded/<id>/patch.diff) is
	// applied to a scratch copy of the working tree and the quick check is run on that copy; it has to report a
	// violation. A canary that is not detected does not say anything about the tree, it says the check is weaker
	// than it should be: reported as a note and recorded in the evidence.
	var canaryLines []string
	if *tier == "thorough" && os.Getenv("GOVC_NO_CANARIES") == "" && *repo == "/repo" {
		canaryLines = runCanaries(root, *repo, *prop)
		for _, l := range canaryLines {
			if strings.Contains(l, "NOT DETECTED") {
				fmt.Println("NOTE: selftest " + l)
			}
		}
	}
	// expectation: obligation names that must exist
	missing := checkExpect(root, *prop, obls)
	for _, m := range missing {
		fmt.Printf("UNDECIDED property=%s expected obligation vanished: %s\n", *prop, m)
		if exit == 0 {
			exit = 2
		}
	}

	// evidence
	var fnKeys []string
	for _, k := range order {
		fnKeys = append(fnKeys, shortKey(k))
	}
	trusted := trustedBase(cs, done, order, *prop)
	{
		inl := map[string]bool{}
		for _, k := range order {
			for _, f := range done[k].Inlined {
				inl[shortKey(f)] = true
			}
		}
		if len(inl) > 0 {
			var names []string
			for k := range inl {
				names = append(names, k)
			}
			sort.Strings(names)
			trusted = append(trusted, "not an assumption, for the record: helpers without a contract of their own, verified by executing their bodies in place at each call site: "+strings.Join(names, ", "))
		}
	}
	if cs.NoSafety[*prop] {
		trusted = append(trusted, "scope: no safe.*/nofatal/nopanic obligations are generated in this property mode (declared 'mode "+*prop+" nosafety'): panic-freedom of the functions involved is not claimed by this check")
	}
	lvl := *level
	// the level recorded in the evidence is the one claimed in MANIFEST.json for this property
	if b, err := os.ReadFile(filepath.Join(root, "MANIFEST.json")); err == nil {
		var mf struct {
			Checks []struct {
				PropertyID   string `json:"property_id"`
				LevelClaimed struct {
					Category string `json:"category"`
				} `json:"level_claimed"`
			} `json:"checks"`
		}
		if json.Unmarshal(b, &mf) == nil {
			for _, c := range mf.Checks {
				if c.PropertyID == *prop && c.LevelClaimed.Category != "" {
					lvl = c.LevelClaimed.Category
				}
			}
		}
	}
	if nDis != nProve && lvl == "proof" {
		lvl = "other"
	}
	var knownList []string
	for _, l := range findingLines {
		knownList = append(knownList, l)
	}
	cov := map[string]interface{}{
		"obligations":              nProve,
		"discharged":               nDis,
		"checker_cmd":              fmt.Sprintf("bin/govc check --prop %s --tier %s (VCs over go/ssa of /repo's working tree; solvers z3-new 5.1.0 | cvc5 1.0.3 | z3 4.8.12, %ds per obligation)", *prop, *tier, tmo),
		"trusted_base":             trusted,
		"samples":                  samples,
		"functions_under_contract": fnKeys,
		"discharged_by_solver":     bySolver,
		"solver_seconds":           round3(solverTime),
		"cover_queries":            nCover,
		"cover_sat":                nCoverOK,
		"known_findings":           knownList,
		"canaries":                 canaryLines,
		"replay_recipes":           recipeLines,
		"failed_obligations":       namesOf(failedObl),
		"exhaustive":               false,
		"explanation":              fmt.Sprintf("%d of %d proof obligations discharged (unsat); %d failed obligations of which %d are recorded known findings; %d/%d vacuity covers satisfiable", nDis, nProve, len(failed), len(findingLines), nCoverOK, nCover),
	}
	ev := Evidence{PropertyID: *prop, Tier: *tier, Seed: seedFromEnv(), Level: lvl, Coverage: cov,
		Assumptions: trusted, WallS: round3(time.Since(t0).Seconds()), Violations: nViol}
	if *noEvidence {
		return exit
	}
	_ = os.MkdirAll(filepath.Join(root, "evidence"), 0755)
	b, _ := json.MarshalIndent(ev, "", " ")
	_ = os.WriteFile(filepath.Join(root, "evidence", *prop+".json"), b, 0644)
	fmt.Printf("property=%s functions=%d obligations=%d discharged=%d failed=%d known=%d covers=%d/%d wall=%.1fs\n",
		*prop, len(order), nProve, nDis, len(failed), len(findingLines), nCoverOK, nCover, time.Since(t0).Seconds())
	return exit
}

func namesOf(os []*Obligation) []string {
	out := []string{}
	for _, o := range os {
		out = append(out, o.Name)
	}
	return out
}

func round3(f float64) float64 { return float64(int(f*1000+0.5)) / 1000 }

func seedFromEnv() int {
	var s int
	fmt.Sscanf(os.Getenv("VERIF_SEED"), "%d", &s)
	return s
}

func trustedBase(cs *Contracts, done map[string]*FuncResult, order []string, prop string) []string {
	used := map[string]bool{}
	for _, k := range order {
		for _, c := range done[k].Callees {
			used[c] = true
		}
	}
	var out []string
	for _, k := range sortedKeys(cs.ByKey) {
		c := cs.ByKey[k]
		if c.Extern && used[k] {
			line := "assumed contract (extern): " + shortKey(k)
			if c.Trusted != "" {
				line += " — " + c.Trusted
			}
			var cl []string
			for _, en := range c.Ensures {
				cl = append(cl, en.Text)
			}
			if len(cl) > 0 {
				line += " :: ensures " + strings.Join(cl, " ; ")
			}
			if len(line) > 400 {
				line = line[:400] + "…"
			}
			out = append(out, line)
		}
	}
	for _, k := range order {
		for _, a := range cs.ByKey[k].Assumes {
			out = append(out, "assume in "+shortKey(k)+": "+a.Text)
		}
	}
	// preconditions of functions that no function under contract calls in this run: nobody proves them
	for _, k := range order {
		if used[k] {
			continue
		}
		for _, rq := range cs.ByKey[k].Requires {
			if !rq.activeFor(prop) {
				continue
			}
			line := "unchecked entry precondition (no caller under contract): " + shortKey(k) + ": " + rq.Text
			if len(line) > 400 {
				line = line[:400] + "…"
			}
			out = append(out, line)
		}
	}
	var closed []string
	for k := range cs.Closed {
		closed = append(closed, k)
	}
	sort.Strings(closed)
	for _, k := range closed {
		out = append(out, "closed world: every dynamic type of "+shortKey(k)+" is one of the module's non-test implementations")
	}
	for k := range cs.Sentinels {
		_ = k
	}
	out = append(out,
		"int arithmetic is over mathematical integers unless a function carries 'overflow' (then every + - * is checked against its type's range)",
		"float64 = extended rounded reals (kinds fin/+inf/-inf/nan; rnd64 constrained by ground sandwich/monotone/exact-integer lemmas of round-to-nearest)",
		"each function under contract is verified as one sequential atomic step (no interleaving inside a step)",
		"heap model: typed per-field arrays (Burstall-Bornat); no interior pointers stored in the heap; references read from the heap are allocated",
		"logging/notification functions have no effect on program state",
		"go/ssa (x/tools v0.29.0, NaiveForm) faithfully represents the compiled source; SMT solvers are sound",
	)
	return out
}

func checkExpect(root, prop string, obls []*Obligation) []string {
	b, err := os.ReadFile(filepath.Join(root, "expect", prop+".json"))
	if err != nil {
		return nil
	}
	var names []string
	if json.Unmarshal(b, &names) != nil {
		return nil
	}
	have := map[string]bool{}
	for _, o := range obls {
		have[o.Name] = true
	}
	var missing []string
	for _, n := range names {
		if !have[n] {
			missing = append(missing, n)
		}
	}
	return missing
}

func cmdList(args []string) int {
	repo := "/repo"
	p, err := loadProgram(repo)
	if err != nil {
		fmt.Fprintln(os.Stderr, err)
		return 2
	}
	cs, err := loadContracts(p)
	if err != nil {
		fmt.Fprintln(os.Stderr, err)
		return 2
	}
	fns := p.allFunctions()
	for _, k := range sortedKeys(cs.ByKey) {
		c := cs.ByKey[k]
		st := "ok"
		if !c.Extern && fns[k] == nil {
			st = "NO-SUCH-FUNCTION"
		}
		kind := "func"
		if c.Extern {
			kind = "extern"
		}
		fmt.Printf("%-7s %-18s %-10s %s\n", kind, strings.Join(c.Props, ","), st, shortKey(k))
	}
	return 0
}

var _ = ssa.NaiveForm

// runCanaries: see the call site. The scratch copy lives outside /repo and /verif and is removed afterwards.
func runCanaries(root, repo, prop string) []string {
	var out []string
	dirs, _ := filepath.Glob(filepath.Join(root, "seeded", "*"))
	sort.Strings(dirs)
	for _, d := range dirs {
		b, err := os.ReadFile(filepath.Join(d, "meta.json"))
		if err != nil {
			continue
		}
		var meta struct {
			Property string `json:"property"`
			KnownGap string `json:"known_gap"` // recorded reason why no contract within reach reports this change
		}
		if json.Unmarshal(b, &meta) != nil || meta.Property != prop {
			continue
		}
		name := filepath.Base(d)
		scratch, err := os.MkdirTemp("", "govc-canary-")
		if err != nil {
			continue
		}
		func() {
			defer os.RemoveAll(scratch)
			if o, err := exec.Command("rsync", "-a", "--exclude", ".git", repo+"/", scratch+"/").CombinedOutput(); err != nil {
				out = append(out, fmt.Sprintf("canary %s: scratch copy failed: %s", name, strings.TrimSpace(string(o))))
				return
			}
			ap := exec.Command("git", "apply", "--unsafe-paths", "--directory="+scratch, filepath.Join(d, "patch.diff"))
			ap.Dir = "/"
			if o, err := ap.CombinedOutput(); err != nil {
				out = append(out, fmt.Sprintf("canary %s: patch no longer applies to the working tree (skipped): %s", name, firstLine(string(o))))
				return
			}
			c := exec.Command(os.Args[0], "check", "--repo", scratch, "--prop", prop, "--tier", "quick", "--noevidence")
			c.Env = append(os.Environ(), "GOVC_NO_CANARIES=1", "GOVC_WORK_SUFFIX=-canary")
			o, _ := c.CombinedOutput()
			code := c.ProcessState.ExitCode()
			if code == 1 && strings.Contains(string(o), "VIOLATION property="+prop) {
				first := ""
				for _, l := range strings.Split(string(o), "\n") {
					if strings.HasPrefix(l, "VIOLATION") {
						if i := strings.Index(l, "obligation="); i >= 0 {
							first = strings.Fields(l[i+11:])[0]
						}
						break
					}
				}
				out = append(out, fmt.Sprintf("canary %s: detected (%s)", name, shortKey(first)))
			} else if meta.KnownGap != "" {
				out = append(out, fmt.Sprintf("canary %s: NOT DETECTED by the quick check (exit %d) - recorded gap: %s", name, code, meta.KnownGap))
			} else {
				out = append(out, fmt.Sprintf("canary %s: NOT DETECTED by the quick check (exit %d)", name, code))
			}
		}()
	}
	return out
}

func firstLine(s string) string {
	s = strings.TrimSpace(s)
	if i := strings.Index(s, "\n"); i >= 0 {
		return s[:i]
	}
	return s
}
