package main

import (
	"fmt"
	"os"
	"path/filepath"
	"regexp"
	"sort"
	"strings"
)

// ---------------------------------------------------------------------------------------------
// Contract files: /repo/internal/<pkg>/zz_contracts_verif.go, comment-only, //go:build verif.
// Every line that matters starts with "//@". A line whose first word is a clause keyword starts
// a new clause, any other line continues the previous clause.
// ---------------------------------------------------------------------------------------------

type Clause struct {
	Label    string   // "" if unlabelled
	Props    []string // properties this clause belongs to (from the label C01.xyz and extra tags)
	NotProps []string // "-Cxx" tags: the clause is not part of the contract in these property modes
	ThoroughOnly bool // tag "thorough": the clause is part of the contract in the thorough tier only (slow obligation)
	Expr     *SExpr
	Text     string
	Kind     string // requires|ensures|invariant|assume
	Line     int
	File     string
}

type LoopSpec struct {
	Ordinal   int
	Header    string
	Invs      []*Clause
	Decreases *SExpr
	DecText   string
}

type Param struct {
	Name string
	Ty   string
}

type Contract struct {
	Key          string // canonical function key
	RawName      string
	PkgPath      string // package the contract file belongs to
	File         string
	Line         int
	Extern       bool
	Trusted      string
	Props        []string
	Params       []Param // externs only (recv first for methods)
	Results      []Param // externs: declared; module functions: optional "returns"
	Requires     []*Clause
	Ensures      []*Clause
	Modifies     []*SExpr
	ModText      []string
	ModCond      []*SExpr // optional guard per entry ("modifies X if COND", externs only)
	HasMod       bool
	Loops        map[int]*LoopSpec
	NoFatal      bool
	Fatal        bool // extern: never returns normally; calling it is a nofatal obligation
	Overflow     bool
	Callback     string // extern with special built-in handling
	Lets         []Param
	LetExprs     []*SExpr
	Assumes      []*Clause
	Iface        bool     // contract of an interface method (behavioural subtyping)
	Pure         bool     // extern without effects: no frame, no allocation
	Opaque       bool     // module function deliberately treated as extern (body outside the subset)
	Split        []*SExpr // interface-valued expressions: every post is proved once per dynamic type
	SplitTxt     []string
	Functional   string   // "functional NAME": the result is a function NAME(args) of the arguments (slices: content and length)
	NoFrame      bool     // "modifies anything": top-level actor closures, no frame obligations (such a function cannot be called from a function under contract)
	SplitRet     bool     // prove every postcondition separately per return statement
	ParamNames   []string // "params (a, b, c)": the names the contract uses for receiver + parameters, bound by position
	Impl         bool     // "impl func": body-side contract of an opaque function (key has the suffix #impl)
	HeapClosed   bool     // "heapclosed": add the axiom "every reference stored in the entry heap is below the entry watermark" (quantified)
	DispatchOnly []string // "dispatchonly Cxx ...": target of interface dispatch only in these modes; elsewhere call sites must exclude it
	Safety       []string // properties under which safe.*/nofatal/nopanic obligations are generated (default: all)
	GhostDo      []*GhostAssign
	GhostRet     []*GhostAssign // ghost statements executed at exit (results in scope)
	AtCalls      []*AtCall
}

// GhostAssign is a ghost statement executed at function entry: name[key] := value / name := value.
type GhostAssign struct {
	Name string
	Key  *SExpr
	Val  *SExpr
	Text string
}

// AtCall is an assertion checked at every call of a callee whose name matches, with the callee's
// parameter names bound to the actual arguments.
type AtCall struct {
	Clause *Clause
	Callee string       // method or function name, e.g. "SetPwm"
	Assign *GhostAssign // "atcall ghost Callee: g := expr": ghost statement executed just before the call
}

type PureFn struct {
	Name    string
	PkgPath string
	Params  []Param
	Ret     string
	Body    *SExpr
	Text    string
}

type GhostVar struct {
	Name    string
	Ty      string
	PkgPath string
}

type Lemma struct {
	Name    string
	PkgPath string
	Func    string // function key run twice
	Props   []string
	Share   []string
	Assumes []*Clause
	Ensures []*Clause
	File    string
	Line    int
}

type Contracts struct {
	ByKey     map[string]*Contract
	Pure      map[string]*PureFn // by "pkgname.name" and by bare name (if unique)
	Ghost     map[string]*GhostVar
	Lemmas    []*Lemma
	Sentinels map[string]bool // immutable global error values "pkgpath.Name"
	NoSafety  map[string]bool // property modes declared "mode Cxx nosafety": no safe.*/nofatal/nopanic obligations (not claimed there)
	Files     []string
	TrustScan []string // every extern/trusted/assume/hint line verbatim
	Closed    map[string]bool
}

var clauseKeywords = map[string]bool{
	"func": true, "impl": true, "extern": true, "pure": true, "ghost": true, "props": true, "requires": true, "ensures": true,
	"modifies": true, "loop": true, "invariant": true, "decreases": true, "nofatal": true, "overflow": true,
	"let": true, "trusted": true, "returns": true, "fatal": true, "assume": true, "callback": true,
	"lemma": true, "mode": true, "params": true, "heapclosed": true, "dispatchonly": true, "sentinel": true, "iface": true, "share": true, "effectfree": true, "opaque": true, "end": true, "ghostdo": true, "ghostret": true, "atcall": true, "split": true, "safety": true, "splitreturns": true, "functional": true,
}

var labelRe = regexp.MustCompile(`^(requires|ensures|invariant|assume)\[([^\]]*)\]\s*(.*)$`)
var propRe = regexp.MustCompile(`^C[0-9]{2,3}$`)

func loadContracts(p *Program) (*Contracts, error) {
	cs := &Contracts{ByKey: map[string]*Contract{}, Pure: map[string]*PureFn{}, Ghost: map[string]*GhostVar{}, Sentinels: map[string]bool{}, NoSafety: map[string]bool{}, Closed: map[string]bool{}}
	for _, pkg := range p.Pkgs {
		if !strings.HasPrefix(pkg.PkgPath, repoModule) {
			continue
		}
		rel := strings.TrimPrefix(strings.TrimPrefix(pkg.PkgPath, repoModule), "/")
		f := filepath.Join(p.Repo, rel, "zz_contracts_verif.go")
		b, err := os.ReadFile(f)
		if err != nil {
			continue
		}
		cs.Files = append(cs.Files, f)
		if err := cs.parseFile(p, pkg.PkgPath, f, string(b)); err != nil {
			return nil, err
		}
	}
	sort.Strings(cs.Files)
	return cs, nil
}

type rawClause struct {
	kw   string
	text string
	line int
}

func (cs *Contracts) parseFile(p *Program, pkgPath, file, src string) error {
	var raws []rawClause
	for i, ln := range strings.Split(src, "\n") {
		t := strings.TrimSpace(ln)
		if !strings.HasPrefix(t, "//@") {
			continue
		}
		t = strings.TrimSpace(strings.TrimPrefix(t, "//@"))
		if t == "" || strings.HasPrefix(t, "#") {
			continue
		}
		first := t
		if j := strings.IndexAny(t, " \t[:"); j >= 0 {
			first = t[:j]
		}
		if clauseKeywords[first] {
			raws = append(raws, rawClause{kw: first, text: strings.TrimSpace(t[len(first):]), line: i + 1})
			if first == "atcall" {
				raws[len(raws)-1].text = strings.TrimSpace(t[len("atcall"):])
			}
			if first == "requires" || first == "ensures" || first == "invariant" || first == "assume" {
				raws[len(raws)-1].text = t // keep keyword for label parsing
			}
		} else {
			if len(raws) == 0 {
				return fmt.Errorf("%s:%d: continuation line without clause", file, i+1)
			}
			raws[len(raws)-1].text += " " + t
		}
	}
	var cur *Contract
	var curLoop *LoopSpec
	var curLemma *Lemma
	fail := func(rc rawClause, f string, a ...interface{}) error {
		return fmt.Errorf("%s:%d: %s", file, rc.line, fmt.Sprintf(f, a...))
	}
	mkClause := func(rc rawClause) (*Clause, error) {
		m := labelRe.FindStringSubmatch(rc.text)
		c := &Clause{Line: rc.line, File: file}
		body := ""
		if m != nil {
			c.Kind = m[1]
			toks := strings.Fields(m[2])
			if len(toks) > 0 {
				c.Label = toks[0]
				if i := strings.Index(c.Label, "."); i > 0 && propRe.MatchString(c.Label[:i]) {
					c.Props = append(c.Props, c.Label[:i])
				} else if propRe.MatchString(c.Label) {
					c.Props = append(c.Props, c.Label)
				}
				for _, t := range toks[1:] {
					if propRe.MatchString(t) {
						c.Props = append(c.Props, t)
					} else if strings.HasPrefix(t, "-") && propRe.MatchString(t[1:]) {
						c.NotProps = append(c.NotProps, t[1:])
					} else if t == "thorough" {
						c.ThoroughOnly = true
					}
				}
			}
			body = m[3]
		} else {
			j := strings.IndexAny(rc.text, " \t")
			if j < 0 {
				return nil, fail(rc, "empty clause")
			}
			c.Kind = rc.text[:j]
			body = strings.TrimSpace(rc.text[j:])
		}
		e, err := parseSpecExpr(body)
		if err != nil {
			return nil, fail(rc, "%v", err)
		}
		c.Expr = e
		c.Text = body
		return c, nil
	}
	for _, rc := range raws {
		switch rc.kw {
		case "func", "extern", "iface", "opaque", "impl":
			curLoop, curLemma = nil, nil
			text := rc.text
			c := &Contract{PkgPath: pkgPath, File: file, Line: rc.line, Loops: map[int]*LoopSpec{}}
			if rc.kw == "extern" || rc.kw == "opaque" {
				c.Extern = true
				c.Opaque = rc.kw == "opaque"
				text = strings.TrimSpace(strings.TrimPrefix(text, "func "))
			}
			if rc.kw == "iface" {
				c.Iface = true
				c.Extern = true
			}
			if rc.kw == "impl" {
				// "impl func F": a second contract for a function whose callers see an opaque (idealised) contract; it is
				// checked against the body and never used at call sites
				text = strings.TrimSpace(strings.TrimPrefix(text, "func "))
				c.Impl = true
			}
			if err := cs.parseHeader(p, c, text); err != nil {
				return fail(rc, "%v", err)
			}
			if c.Impl {
				c.Key += "#impl"
			}
			if old, dup := cs.ByKey[c.Key]; dup {
				return fail(rc, "duplicate contract for %s (also %s:%d)", c.Key, old.File, old.Line)
			}
			cs.ByKey[c.Key] = c
			cur = c
			if c.Extern {
				cs.TrustScan = append(cs.TrustScan, fmt.Sprintf("%s:%d: %s func %s", filepath.Base(filepath.Dir(file)), rc.line, rc.kw, text))
			}
		case "pure":
			cur, curLoop, curLemma = nil, nil, nil
			pf, err := parsePure(rc.text, pkgPath)
			if err != nil {
				return fail(rc, "%v", err)
			}
			pkgName := filepath.Base(pkgPath)
			cs.Pure[pkgName+"."+pf.Name] = pf
			if _, dup := cs.Pure[pf.Name]; dup {
				cs.Pure[pf.Name] = nil // ambiguous bare name
			} else {
				cs.Pure[pf.Name] = pf
			}
		case "ghost":
			cur, curLoop, curLemma = nil, nil, nil
			f := strings.Fields(strings.TrimPrefix(rc.text, "var"))
			if len(f) < 2 {
				return fail(rc, "ghost var NAME TYPE")
			}
			cs.Ghost[f[0]] = &GhostVar{Name: f[0], Ty: strings.Join(f[1:], ""), PkgPath: pkgPath}
		case "mode":
			f := strings.Fields(rc.text)
			if len(f) != 2 || !propRe.MatchString(f[0]) || f[1] != "nosafety" {
				return fail(rc, "mode Cxx nosafety")
			}
			cs.NoSafety[f[0]] = true
		case "sentinel":
			for _, s := range strings.Fields(rc.text) {
				cs.Sentinels[resolveQualified(p, pkgPath, s)] = true
			}
			cs.TrustScan = append(cs.TrustScan, fmt.Sprintf("%s:%d: sentinel %s (assumed never reassigned, non-nil, pairwise distinct)", filepath.Base(filepath.Dir(file)), rc.line, rc.text))
		case "lemma":
			cur, curLoop = nil, nil
			f := strings.Fields(rc.text)
			if len(f) < 3 || f[1] != "for" {
				return fail(rc, "lemma NAME for FUNC")
			}
			hc := &Contract{PkgPath: pkgPath}
			if err := cs.parseHeader(p, hc, strings.Join(f[2:], " ")); err != nil {
				return fail(rc, "%v", err)
			}
			curLemma = &Lemma{Name: f[0], PkgPath: pkgPath, Func: hc.Key, File: file, Line: rc.line}
			cs.Lemmas = append(cs.Lemmas, curLemma)
		case "share":
			if curLemma == nil {
				return fail(rc, "share outside lemma")
			}
			curLemma.Share = append(curLemma.Share, strings.Fields(rc.text)...)
		case "props":
			if curLemma != nil {
				curLemma.Props = append(curLemma.Props, strings.Fields(rc.text)...)
				continue
			}
			if cur == nil {
				return fail(rc, "props outside func")
			}
			cur.Props = append(cur.Props, strings.Fields(rc.text)...)
		case "requires", "ensures", "assume":
			cl, err := mkClause(rc)
			if err != nil {
				return err
			}
			if curLemma != nil {
				if cl.Kind == "ensures" {
					curLemma.Ensures = append(curLemma.Ensures, cl)
				} else {
					curLemma.Assumes = append(curLemma.Assumes, cl)
				}
				continue
			}
			if cur == nil {
				return fail(rc, "%s outside func", rc.kw)
			}
			curLoop = nil
			switch cl.Kind {
			case "requires":
				cur.Requires = append(cur.Requires, cl)
			case "ensures":
				cur.Ensures = append(cur.Ensures, cl)
			case "assume":
				cur.Assumes = append(cur.Assumes, cl)
				cs.TrustScan = append(cs.TrustScan, fmt.Sprintf("%s:%d: assume in %s: %s", filepath.Base(filepath.Dir(file)), rc.line, cur.RawName, cl.Text))
			}
		case "modifies":
			if cur == nil {
				return fail(rc, "modifies outside func")
			}
			cur.HasMod = true
			if strings.TrimSpace(rc.text) == "nothing" {
				continue
			}
			if strings.TrimSpace(rc.text) == "anything" {
				cur.NoFrame = true
				continue
			}
			for _, part := range splitTopLevel(rc.text, ',') {
				part = strings.TrimSpace(part)
				if part == "" {
					continue
				}
				var cond *SExpr
				if k := strings.Index(part, " if "); k >= 0 {
					if !cur.Extern {
						return fail(rc, "conditional modifies is only available on extern contracts")
					}
					c, err := parseSpecExpr(strings.TrimSpace(part[k+4:]))
					if err != nil {
						return fail(rc, "%v", err)
					}
					cond = c
					part = strings.TrimSpace(part[:k])
				}
				e, err := parseSpecExpr(part)
				if err != nil {
					return fail(rc, "%v", err)
				}
				cur.Modifies = append(cur.Modifies, e)
				cur.ModText = append(cur.ModText, part)
				cur.ModCond = append(cur.ModCond, cond)
			}
		case "loop":
			if cur == nil {
				return fail(rc, "loop outside func")
			}
			var n int
			rest := rc.text
			if _, err := fmt.Sscanf(rest, "%d", &n); err != nil {
				return fail(rc, "loop ORDINAL \"header\"")
			}
			hdr := ""
			if i := strings.Index(rest, "\""); i >= 0 {
				j := strings.LastIndex(rest, "\"")
				if j > i {
					hdr = rest[i+1 : j]
				}
			}
			curLoop = &LoopSpec{Ordinal: n, Header: hdr}
			cur.Loops[n] = curLoop
		case "invariant":
			if curLoop == nil {
				return fail(rc, "invariant outside loop")
			}
			cl, err := mkClause(rc)
			if err != nil {
				return err
			}
			curLoop.Invs = append(curLoop.Invs, cl)
		case "decreases":
			if curLoop == nil {
				return fail(rc, "decreases outside loop")
			}
			e, err := parseSpecExpr(rc.text)
			if err != nil {
				return fail(rc, "%v", err)
			}
			curLoop.Decreases = e
			curLoop.DecText = rc.text
		case "nofatal":
			if cur != nil {
				cur.NoFatal = true
			}
		case "fatal":
			if cur != nil {
				cur.Fatal = true
			}
		case "effectfree":
			if cur != nil {
				cur.Pure = true
			}
		case "overflow":
			if cur != nil {
				cur.Overflow = true
			}
		case "callback":
			if cur != nil {
				cur.Callback = strings.TrimSpace(rc.text)
			}
		case "trusted":
			if cur != nil {
				cur.Trusted = strings.Trim(strings.TrimSpace(rc.text), "\"")
			}
		case "returns":
			if cur == nil {
				return fail(rc, "returns outside func")
			}
			t := strings.Trim(strings.TrimSpace(rc.text), "()")
			cur.Results = nil
			for _, n := range strings.Split(t, ",") {
				cur.Results = append(cur.Results, Param{Name: strings.TrimSpace(n)})
			}
		case "let":
			if cur == nil {
				return fail(rc, "let outside func")
			}
			i := strings.Index(rc.text, "=")
			if i < 0 {
				return fail(rc, "let NAME = EXPR")
			}
			e, err := parseSpecExpr(strings.TrimSpace(rc.text[i+1:]))
			if err != nil {
				return fail(rc, "%v", err)
			}
			cur.Lets = append(cur.Lets, Param{Name: strings.TrimSpace(rc.text[:i])})
			cur.LetExprs = append(cur.LetExprs, e)
		case "split":
			if cur == nil {
				return fail(rc, "split outside func")
			}
			x, err := parseSpecExpr(rc.text)
			if err != nil {
				return fail(rc, "%v", err)
			}
			cur.Split = append(cur.Split, x)
			cur.SplitTxt = append(cur.SplitTxt, strings.TrimSpace(rc.text))
		case "functional":
			if cur != nil {
				cur.Functional = strings.TrimSpace(rc.text)
				cs.TrustScan = append(cs.TrustScan, fmt.Sprintf("%s:%d: functional %s: %s is a deterministic function of its arguments", filepath.Base(filepath.Dir(file)), rc.line, cur.Functional, cur.RawName))
			}
		case "splitreturns":
			if cur != nil {
				cur.SplitRet = true
			}
		case "params":
			if cur == nil {
				return fail(rc, "params outside func")
			}
			t := strings.TrimSpace(rc.text)
			t = strings.TrimSuffix(strings.TrimPrefix(t, "("), ")")
			for _, n := range strings.Split(t, ",") {
				if n = strings.TrimSpace(n); n != "" {
					cur.ParamNames = append(cur.ParamNames, n)
				}
			}
		case "heapclosed":
			if cur == nil {
				return fail(rc, "heapclosed outside func")
			}
			cur.HeapClosed = true
		case "dispatchonly":
			if cur == nil {
				return fail(rc, "dispatchonly outside func")
			}
			cur.DispatchOnly = append(cur.DispatchOnly, strings.Fields(rc.text)...)
		case "safety":
			if cur == nil {
				return fail(rc, "safety outside func")
			}
			cur.Safety = append(cur.Safety, strings.Fields(rc.text)...)
		case "ghostdo", "ghostret":
			if cur == nil {
				return fail(rc, "ghostdo outside func")
			}
			i := strings.Index(rc.text, ":=")
			if i < 0 {
				return fail(rc, "ghostdo NAME[KEY] := EXPR")
			}
			lhs, rhs := strings.TrimSpace(rc.text[:i]), strings.TrimSpace(rc.text[i+2:])
			ga := &GhostAssign{Text: rc.text}
			if j := strings.Index(lhs, "["); j >= 0 {
				ga.Name = strings.TrimSpace(lhs[:j])
				k, err := parseSpecExpr(strings.TrimSuffix(lhs[j+1:], "]"))
				if err != nil {
					return fail(rc, "%v", err)
				}
				ga.Key = k
			} else {
				ga.Name = lhs
			}
			v, err := parseSpecExpr(rhs)
			if err != nil {
				return fail(rc, "%v", err)
			}
			ga.Val = v
			if rc.kw == "ghostret" {
				cur.GhostRet = append(cur.GhostRet, ga)
			} else {
				cur.GhostDo = append(cur.GhostDo, ga)
			}
		case "atcall":
			if cur == nil {
				return fail(rc, "atcall outside func")
			}
			// atcall[label] Callee: expr   |   atcall ghost Callee: name := expr
			t := rc.text
			lbl := ""
			if strings.HasPrefix(t, "ghost ") {
				t = strings.TrimSpace(t[6:])
				i := strings.Index(t, ":")
				j := strings.Index(t, ":=")
				if i < 0 || j < 0 || j <= i {
					return fail(rc, "atcall ghost CALLEE: NAME := EXPR")
				}
				v, err := parseSpecExpr(strings.TrimSpace(t[j+2:]))
				if err != nil {
					return fail(rc, "%v", err)
				}
				cur.AtCalls = append(cur.AtCalls, &AtCall{Callee: strings.TrimSpace(t[:i]), Clause: &Clause{Kind: "atcall"},
					Assign: &GhostAssign{Name: strings.TrimSpace(t[i+1 : j]), Val: v, Text: t}})
				continue
			}
			if strings.HasPrefix(t, "[") {
				j := strings.Index(t, "]")
				lbl = t[1:j]
				t = strings.TrimSpace(t[j+1:])
			}
			i := strings.Index(t, ":")
			if i < 0 {
				return fail(rc, "atcall[label] CALLEE: EXPR")
			}
			cl, err := mkClause(rawClause{kw: "ensures", text: "ensures[" + lbl + "] " + strings.TrimSpace(t[i+1:]), line: rc.line})
			if err != nil {
				return err
			}
			cl.Kind = "atcall"
			cur.AtCalls = append(cur.AtCalls, &AtCall{Clause: cl, Callee: strings.TrimSpace(t[:i])})
		case "end":
			cur, curLoop, curLemma = nil, nil, nil
		}
	}
	return nil
}

func splitTopLevel(s string, sep rune) []string {
	var out []string
	depth := 0
	last := 0
	for i, c := range s {
		switch c {
		case '(', '[':
			depth++
		case ')', ']':
			depth--
		default:
			if c == sep && depth == 0 {
				out = append(out, s[last:i])
				last = i + 1
			}
		}
	}
	out = append(out, s[last:])
	return out
}

// parseHeader parses "Name", "(*T).Name", "(T).Name$2", "pkg.Name(params) (results)",
// "(r *pkg.T).Name(params) (results)" and computes the canonical key.
func (cs *Contracts) parseHeader(p *Program, c *Contract, text string) error {
	text = strings.TrimSpace(text)
	c.RawName = text
	rest := text
	recvTy := ""
	recvName := ""
	if strings.HasPrefix(text, "functype ") {
		// extern functype "<types.TypeString of the func type>" (names): calls through function values of that type
		q := strings.TrimSpace(strings.TrimPrefix(text, "functype"))
		if !strings.HasPrefix(q, "\"") || strings.Count(q, "\"") < 2 {
			return fmt.Errorf("functype needs a quoted type in %q", text)
		}
		j := strings.Index(q[1:], "\"") + 1
		c.Key = q[1:j]
		after := strings.TrimSpace(q[j+1:])
		if strings.HasPrefix(after, "(") && strings.HasSuffix(after, ")") {
			for _, n := range strings.Split(after[1:len(after)-1], ",") {
				if n = strings.TrimSpace(n); n != "" {
					c.Params = append(c.Params, Param{Name: n})
				}
			}
		}
		return nil
	}
	if strings.HasPrefix(rest, "(") {
		j := matchParen(rest, 0)
		if j < 0 {
			return fmt.Errorf("bad receiver in %q", text)
		}
		recv := strings.TrimSpace(rest[1:j])
		f := strings.Fields(recv)
		if len(f) == 2 {
			recvName, recvTy = f[0], f[1]
		} else {
			recvTy = recv
		}
		rest = strings.TrimPrefix(strings.TrimSpace(rest[j+1:]), ".")
	}
	// name up to '(' or end
	name := rest
	after := ""
	if i := strings.Index(rest, "("); i >= 0 {
		name = strings.TrimSpace(rest[:i])
		after = rest[i:]
	} else if i := strings.Index(rest, " "); i >= 0 {
		name = strings.TrimSpace(rest[:i])
		after = rest[i:]
	}
	pkgPath := c.PkgPath
	if recvTy != "" {
		star := ""
		t := recvTy
		if strings.HasPrefix(t, "*") {
			star = "*"
			t = t[1:]
		}
		if i := strings.LastIndex(t, "."); i >= 0 {
			pkgPath = resolvePkgName(p, c.PkgPath, t[:i])
			t = t[i+1:]
		}
		c.Key = fmt.Sprintf("%s.(%s%s).%s", pkgPath, star, t, name)
		if c.Iface {
			c.Key = fmt.Sprintf("%s.%s.%s", pkgPath, t, name)
		}
		if c.Extern {
			if recvName == "" {
				recvName = "recv"
			}
			c.Params = append(c.Params, Param{Name: recvName, Ty: recvTy})
		}
	} else {
		// the function name may contain type arguments and anonymous suffixes; a leading
		// "pkg." qualifier selects another package
		base := name
		cut := base
		if k := strings.Index(cut, "["); k >= 0 {
			cut = cut[:k]
		}
		if k := strings.Index(cut, "$"); k >= 0 {
			cut = cut[:k]
		}
		if i := strings.LastIndex(cut, "."); i >= 0 {
			pkgPath = resolvePkgName(p, c.PkgPath, base[:i])
			base = base[i+1:]
		}
		c.Key = pkgPath + "." + base
	}
	if after != "" && strings.HasPrefix(strings.TrimSpace(after), "(") {
		after = strings.TrimSpace(after)
		j := matchParen(after, 0)
		if j < 0 {
			return fmt.Errorf("bad parameter list in %q", text)
		}
		ps, err := parseParamList(after[1:j])
		if err != nil {
			return err
		}
		c.Params = append(c.Params, ps...)
		resTxt := strings.TrimSpace(after[j+1:])
		if resTxt != "" {
			if strings.HasPrefix(resTxt, "(") {
				k := matchParen(resTxt, 0)
				rs, err := parseParamList(resTxt[1:k])
				if err != nil {
					return err
				}
				c.Results = rs
			} else {
				c.Results = []Param{{Name: "result", Ty: resTxt}}
			}
		}
	}
	return nil
}

func matchParen(s string, i int) int {
	depth := 0
	for j := i; j < len(s); j++ {
		switch s[j] {
		case '(':
			depth++
		case ')':
			depth--
			if depth == 0 {
				return j
			}
		}
	}
	return -1
}

func parseParamList(s string) ([]Param, error) {
	var out []Param
	for _, part := range splitTopLevel(s, ',') {
		part = strings.TrimSpace(part)
		if part == "" {
			continue
		}
		f := strings.Fields(part)
		if len(f) == 1 {
			out = append(out, Param{Name: f[0]})
			continue
		}
		out = append(out, Param{Name: f[0], Ty: strings.Join(f[1:], "")})
	}
	// "a, b int" → propagate types backwards
	for i := len(out) - 2; i >= 0; i-- {
		if out[i].Ty == "" {
			out[i].Ty = out[i+1].Ty
		}
	}
	return out, nil
}

func parsePure(text, pkgPath string) (*PureFn, error) {
	i := strings.Index(text, "(")
	if i < 0 {
		return nil, fmt.Errorf("pure NAME(params) TYPE = EXPR")
	}
	j := matchParen(text, i)
	eq := strings.Index(text[j:], "=")
	if j < 0 || eq < 0 {
		return nil, fmt.Errorf("pure NAME(params) TYPE = EXPR")
	}
	ps, err := parseParamList(text[i+1 : j])
	if err != nil {
		return nil, err
	}
	ret := strings.TrimSpace(text[j+1 : j+eq])
	bodyTxt := strings.TrimSpace(text[j+eq+1:])
	body, err := parseSpecExpr(bodyTxt)
	if err != nil {
		return nil, err
	}
	return &PureFn{Name: strings.TrimSpace(text[:i]), PkgPath: pkgPath, Params: ps, Ret: ret, Body: body, Text: bodyTxt}, nil
}

// resolvePkgName maps a package *name* used in a contract file to an import path: the
// contract's own package, one of its imports, or any loaded package with that name.
func resolvePkgName(p *Program, fromPkg, name string) string {
	if strings.Contains(name, "/") {
		return name
	}
	if filepath.Base(fromPkg) == name {
		return fromPkg
	}
	var cands []string
	for path, sp := range p.ByPkg {
		if sp.Pkg.Name() == name {
			cands = append(cands, path)
		}
	}
	if len(cands) == 0 {
		return name
	}
	sort.Strings(cands)
	// prefer module packages, then a direct import of fromPkg
	for _, c := range cands {
		if strings.HasPrefix(c, repoModule) {
			return c
		}
	}
	if sp, ok := p.ByPkg[fromPkg]; ok {
		for _, imp := range sp.Pkg.Imports() {
			if imp.Name() == name {
				return imp.Path()
			}
		}
	}
	// prefer standard library (no dot in first path element)
	for _, c := range cands {
		if !strings.Contains(strings.SplitN(c, "/", 2)[0], ".") {
			return c
		}
	}
	return cands[0]
}

func resolveQualified(p *Program, fromPkg, q string) string {
	if i := strings.LastIndex(q, "."); i >= 0 {
		return resolvePkgName(p, fromPkg, q[:i]) + "." + q[i+1:]
	}
	return fromPkg + "." + q
}

// currentTier is set by the check command; clauses tagged "thorough" are skipped (neither proved nor assumed) elsewhere.
var currentTier = "quick"

func (c *Clause) activeFor(prop string) bool {
	if c.ThoroughOnly && currentTier != "thorough" {
		return false
	}
	for _, p := range c.NotProps {
		if p == prop {
			return false
		}
	}
	if len(c.Props) == 0 || prop == "" {
		return true
	}
	for _, p := range c.Props {
		if p == prop {
			return true
		}
	}
	return false
}

func (c *Contract) hasProp(prop string) bool {
	for _, p := range c.Props {
		if p == prop {
			return true
		}
	}
	return false
}
