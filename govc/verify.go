package main

import (
	"fmt"
	"go/token"
	"go/types"
	"os"
	"sort"
	"strconv"
	"strings"

	"golang.org/x/tools/go/ssa"
)

var fileCache = map[string]string{}

func readFileCached(name string) (string, error) {
	if s, ok := fileCache[name]; ok {
		return s, nil
	}
	b, err := os.ReadFile(name)
	if err != nil {
		return "", err
	}
	fileCache[name] = string(b)
	return string(b), nil
}

type FuncResult struct {
	Inlined []string // module functions without a contract whose bodies were executed in place at call sites
	Key     string
	VC      *VC
	Err     string // UNSUPPORTED / contract error / missing contract
	Callees []string
	Lines   int
}

func newExec(p *Program, cs *Contracts, fn *ssa.Function, con *Contract, prop string) *Exec {
	e := &Exec{P: p, CS: cs, Fn: fn, Key: FuncKey(fn), Con: con, Prop: prop}
	e.reset()
	return e
}

func (e *Exec) reset() {
	e.vc = &VC{declared: map[string]bool{}}
	e.vals = map[ssa.Value]Value{}
	if e.compSort == nil {
		e.compSort = map[string]string{} // kept across the discovery and the real pass: a name determines its sort
	}
	e.compInit = map[string]string{}
	e.nfresh = 0
	e.blockIn = map[*ssa.BasicBlock]*blockCtx{}
	e.edgeOut = map[[2]*ssa.BasicBlock]*blockCtx{}
	e.rets = nil
	e.fl = newFloatCtx()
	e.strConsts = map[string]string{}
	e.anchors = map[string]int{}
	e.usedCallees = map[string]bool{}
	e.inlined = map[string]bool{}
	e.frozenElems = map[string]bool{}
	e.writeBlk = nil
	e.inlineDepth = 0
	e.sideCells = map[*ssa.Alloc]Value{}
	e.deferRecs = nil
	e.inputs = nil
	e.mods = nil
	e.params = map[string]Value{}
	if e.cellByKey == nil {
		e.cellByKey = map[string]*ssa.Alloc{}
	}
	e.checkOverflow = e.Con != nil && e.Con.Overflow
}

// bindFailure: a clause of the contract cannot be evaluated against the function as it is now (a name it mentions
// no longer exists, a type changed). The code moved away from its contract: that is a failed obligation
// ("contract.bind"), reported like any other, not an internal error. On the unchanged tree it would show as a
// violation at once, so a mistake in a contract file cannot hide behind it.
func bindFailure(res *FuncResult, fn *ssa.Function, prop, msg string) {
	vc := &VC{declared: map[string]bool{}}
	o := &Obligation{Name: FuncKey(fn) + "#contract.bind", Func: FuncKey(fn), Class: "contract.bind", Clause: "the contract no longer binds to the function: " + msg,
		prefix: 0, goal: "false", reach: "true", vc: vc}
	vc.obls = []*Obligation{o}
	res.VC = vc
	res.Err = ""
}

// verifyFunction generates the VC of one function under its contract.
func verifyFunction(p *Program, cs *Contracts, fn *ssa.Function, con *Contract, prop string) (res *FuncResult) {
	res = &FuncResult{Key: FuncKey(fn)}
	defer func() {
		if r := recover(); r != nil {
			switch x := r.(type) {
			case unsupported:
				res.Err = "UNSUPPORTED: " + x.msg
			case contractError:
				bindFailure(res, fn, prop, x.msg)
			case specError:
				bindFailure(res, fn, prop, x.msg)
			case missingContract:
				res.Err = fmt.Sprintf("MISSING-CONTRACT: %s (called from %s)", x.key, x.from)
			default:
				panic(r)
			}
		}
	}()
	e := newExec(p, cs, fn, con, prop)
	e.findLoops()
	// pass 1: discover which cells / components each block writes
	e.discovery = true
	e.writes = map[*ssa.BasicBlock]map[string]bool{}
	e.run()
	writes := e.writes
	cellByKey := e.cellByKey
	// pass 2: the real thing
	e.reset()
	e.discovery = false
	e.writes = writes
	e.cellByKey = cellByKey
	e.run()
	res.VC = e.vc
	for k := range e.usedCallees {
		res.Callees = append(res.Callees, k)
	}
	for k := range e.inlined {
		res.Inlined = append(res.Inlined, k)
	}
	sort.Strings(res.Inlined)
	sort.Strings(res.Callees)
	res.Lines = len(e.vc.lines)
	return res
}

func (e *Exec) findLoops() {
	e.loops = map[*ssa.BasicBlock]*loopInfo{}
	e.backEdge = map[[2]*ssa.BasicBlock]bool{}
	for _, b := range e.Fn.Blocks {
		for _, s := range b.Succs {
			if s.Dominates(b) {
				e.backEdge[[2]*ssa.BasicBlock{b, s}] = true
				li := e.loops[s]
				if li == nil {
					li = &loopInfo{head: s, blocks: map[*ssa.BasicBlock]bool{s: true}}
					e.loops[s] = li
				}
				// natural loop: nodes reaching b without passing through s
				stack := []*ssa.BasicBlock{b}
				for len(stack) > 0 {
					n := stack[len(stack)-1]
					stack = stack[:len(stack)-1]
					if li.blocks[n] {
						continue
					}
					li.blocks[n] = true
					stack = append(stack, n.Preds...)
				}
			}
		}
	}
	// ordinals by smallest source position inside the loop
	type lp struct {
		li  *loopInfo
		pos token.Pos
	}
	var ls []lp
	for _, li := range e.loops {
		min := token.Pos(1 << 40)
		for b := range li.blocks {
			for _, ins := range b.Instrs {
				if p := ins.Pos(); p.IsValid() && p < min {
					min = p
				}
			}
		}
		ls = append(ls, lp{li, min})
	}
	sort.Slice(ls, func(i, j int) bool {
		if ls[i].pos != ls[j].pos {
			return ls[i].pos < ls[j].pos
		}
		return ls[i].li.head.Index < ls[j].li.head.Index
	})
	for i, l := range ls {
		l.li.ordinal = i + 1
		if e.Con != nil {
			l.li.spec = e.Con.Loops[i+1]
		}
	}
}

func (e *Exec) blockOrder() []*ssa.BasicBlock {
	var order []*ssa.BasicBlock
	seen := map[*ssa.BasicBlock]bool{}
	var dfs func(b *ssa.BasicBlock)
	dfs = func(b *ssa.BasicBlock) {
		seen[b] = true
		for i := len(b.Succs) - 1; i >= 0; i-- {
			s := b.Succs[i]
			if e.backEdge[[2]*ssa.BasicBlock{b, s}] || seen[s] {
				continue
			}
			dfs(s)
		}
		order = append(order, b)
	}
	dfs(e.Fn.Blocks[0])
	for i, j := 0, len(order)-1; i < j; i, j = i+1, j-1 {
		order[i], order[j] = order[j], order[i]
	}
	return order
}

func (e *Exec) localEnv(s *State) func(string) (Value, bool) {
	return func(name string) (Value, bool) {
		if strings.HasPrefix(name, "visited#") || strings.HasPrefix(name, "count#") {
			comp := "X|" + name
			sortS, ok := e.compSort[comp]
			if !ok {
				return Value{}, false
			}
			if strings.HasPrefix(name, "count#") {
				return intVal(e.compTerm(s, comp, sortS)), true
			}
			dom, _ := splitArraySort(sortS)
			var kt types.Type = tInt
			if dom == "Str" {
				kt = tString
			}
			return Value{T: &GhostMap{K: kt, V: tBool}, S: []string{e.compTerm(s, comp, sortS)}}, true
		}
		if name == "rangeseq" || strings.HasPrefix(name, "rangeseq#") {
			// the slice a range loop iterates over (whatever it is called in the source, or an unnamed
			// expression): found through the element access indexed by the loop's hidden counter
			idxName := "rangeindex" + strings.TrimPrefix(name, "rangeseq")
			var idxAlloc *ssa.Alloc
			wantK, seenK := 0, 0
			if i := strings.LastIndex(idxName, "#"); i > 0 {
				wantK, _ = strconv.Atoi(idxName[i+1:])
			}
			var cands []*ssa.Alloc
			for _, b := range e.Fn.Blocks {
				for _, ins := range b.Instrs {
					if a, ok := ins.(*ssa.Alloc); ok && a.Comment == "rangeindex" {
						seenK++
						if wantK > 0 && seenK == wantK {
							idxAlloc = a
						}
						cands = append(cands, a)
					}
				}
			}
			if wantK == 0 {
				// the innermost range loop whose counter is live here
				for _, a := range cands {
					if _, ok := s.cells[a]; ok && (e.cur == nil || a.Block().Dominates(e.cur)) {
						idxAlloc = a
					}
				}
			}
			if idxAlloc == nil || idxAlloc.Referrers() == nil {
				return Value{}, false
			}
			for _, r := range *idxAlloc.Referrers() {
				ld, ok := r.(*ssa.UnOp)
				if !ok || ld.Referrers() == nil {
					continue
				}
				for _, u := range *ld.Referrers() {
					if ia, ok := u.(*ssa.IndexAddr); ok && ia.Index == ssa.Value(ld) {
						if v, ok := e.vals[ia.X]; ok {
							return v, true
						}
					}
				}
			}
			return Value{}, false
		}
		var best *ssa.Alloc
		want := 0 // "name#k": the k-th declaration of that name in source order
		if i := strings.LastIndex(name, "#"); i > 0 {
			if k, err := strconv.Atoi(name[i+1:]); err == nil && k > 0 {
				want, name = k, name[:i]
			}
		}
		seen := 0
		consider := func(a *ssa.Alloc) {
			if a.Comment != name {
				return
			}
			if want > 0 {
				seen++
				if seen != want {
					return
				}
				if !a.Heap {
					if _, ok := s.cells[a]; ok {
						best = a
					}
				} else if _, ok := e.vals[a]; ok {
					best = a
				}
				return
			}
			if !a.Heap {
				if _, ok := s.cells[a]; !ok {
					return
				}
			} else if _, ok := e.vals[a]; !ok {
				return
			}
			if best == nil {
				best = a
				return
			}
			// prefer the declaration that dominates the current block and is closest to it
			ad := e.cur == nil || a.Block().Dominates(e.cur)
			bd := e.cur == nil || best.Block().Dominates(e.cur)
			switch {
			case ad && !bd:
				best = a
			case ad == bd && (a.Pos() > best.Pos() || (a.Pos() == best.Pos() && a.Block().Index > best.Block().Index)):
				best = a
			}
		}
		for _, b := range e.Fn.Blocks {
			for _, ins := range b.Instrs {
				if a, ok := ins.(*ssa.Alloc); ok {
					consider(a)
				}
			}
		}
		if best == nil {
			if pv, ok := e.params[name]; ok {
				return pv, true
			}
			return Value{}, false
		}
		if sv, ok := e.sideCells[best]; ok {
			return sv, true
		}
		return e.load(s, e.toLoc(e.vals[best])), true
	}
}

func (e *Exec) run() {
	fn := e.Fn
	if len(fn.Blocks) == 0 {
		unsupportedf("function without body")
	}
	if !e.discovery {
		for _, l := range preamble() {
			e.vc.add(l)
		}
	}
	s := &State{cells: map[*ssa.Alloc][]string{}, comp: map[string]string{}}
	e.st = s
	e.reach = "true"
	e.cur = nil
	w0 := e.W(s)
	e.axiom("(>= " + w0 + " 1)")
	for _, c := range []string{"0.0", "1.0", "(- 1.0)", "0.5", "2.0"} {
		e.fl.addPoint(e, "0", c)
	}
	e.entryW = w0
	vars := map[string]Value{}
	addParam := func(v ssa.Value, name string) {
		pv := e.freshValue("p_"+name, v.Type())
		e.vals[v] = pv
		e.assumeWF(s, pv, true)
		vars[name] = pv
		for i, sd := range slotsOf(v.Type()) {
			e.inputs = append(e.inputs, ModelVar{Name: name + sd.Path, Term: pv.S[i]})
		}
	}
	e.rpParams, e.rpNames, e.rpResults, e.rpExitE = []Value{}, nil, nil, nil
	for i, p := range fn.Params {
		name := p.Name()
		if e.Con != nil && len(e.Con.ParamNames) > 0 && len(e.Con.ParamNames) == len(fn.Params) {
			name = e.Con.ParamNames[i]
		}
		addParam(p, name)
		if name != p.Name() {
			vars[p.Name()] = e.vals[p] // the source's own name stays usable as well
		}
		e.rpParams = append(e.rpParams, e.vals[p])
		e.rpNames = append(e.rpNames, p.Name())
	}
	for _, fv := range fn.FreeVars {
		addParam(fv, fv.Name())
		// a free variable is the address of a captured variable: never nil
		if isPointer(fv.Type()) {
			e.assume("(not (= " + e.vals[fv].S[0] + " 0))")
		}
	}
	if fn.Signature.Recv() != nil && isPointer(fn.Signature.Recv().Type()) && len(fn.Params) > 0 {
		e.assume("(not (= " + e.vals[fn.Params[0]].S[0] + " 0))")
	}
	e.params = vars
	e.entry = s.clone()
	// defer flags start false
	for _, b := range fn.Blocks {
		for _, ins := range b.Instrs {
			if d, ok := ins.(*ssa.Defer); ok {
				s.comp[fmt.Sprintf("D|%d", e.deferOrdinal(d))] = "false"
				e.compSort[fmt.Sprintf("D|%d", e.deferOrdinal(d))] = "Bool"
				e.compInit[fmt.Sprintf("D|%d", e.deferOrdinal(d))] = "false"
			}
		}
	}
	env := &Env{e: e, vars: vars, st: e.entry, old: e.entry, pkgPath: e.Con.PkgPath}
	for i, l := range e.Con.Lets {
		vars[l.Name] = e.evalSpecSafe(env, e.Con.LetExprs[i], e.Con, "let "+l.Name)
	}
	for _, r := range e.Con.Requires {
		e.assume(e.evalSpecBool(env, r.Expr, e.Con, "requires"))
	}
	for _, a := range e.Con.Assumes {
		e.assume(e.evalSpecBool(env, a.Expr, e.Con, "assume"))
	}
	for i, m := range e.Con.Modifies {
		e.mods = append(e.mods, e.modEntriesSafe(env, m, e.Con.ModText[i], e.Con)...)
	}
	// ghost statements run at entry (after old() has been fixed to the pre-state)
	for _, ga := range e.Con.GhostDo {
		e.ghostAssign(s, env, ga)
	}
	e.cover("cover.pre", "", "true")

	e.execBlocks(s, "true")
	e.finish(vars)
}

// execBlocks runs the blocks of e.Fn in topological order of the loop-cut control-flow graph, starting
// from the given state and path condition. Returns end up in e.rets.
func (e *Exec) execBlocks(s *State, entryReach string) {
	for _, b := range e.blockOrder() {
		e.cur = b
		e.curInstr = nil
		if b.Index == 0 {
			e.st = s
			e.reach = entryReach
		} else {
			var ins []incoming
			for _, p := range b.Preds {
				if ec, ok := e.edgeOut[[2]*ssa.BasicBlock{p, b}]; ok {
					ins = append(ins, incoming{cond: ec.reach, st: ec.st})
				}
			}
			if len(ins) == 0 {
				continue // unreachable
			}
			var conds []string
			for _, in := range ins {
				conds = append(conds, in.cond)
			}
			if len(conds) == 1 {
				e.reach = conds[0]
			} else {
				e.reach = e.define(fmt.Sprintf("R%d", b.Index), "Bool", "(or "+strings.Join(conds, " ")+")")
			}
			e.st = e.mergeStates(ins)
		}
		if li := e.loops[b]; li != nil {
			e.enterLoop(li)
		}
		for _, ins := range b.Instrs {
			e.execInstr(ins)
		}
		e.terminate(b)
	}
}

// inlineCall executes the body of a module function that has no contract in place of the call: loop-free,
// defer-free, non-recursive helpers only (typically a few lines extracted from a function under contract).
// Everything the body does is checked as if it were written at the call site.
func (e *Exec) inlineCall(callee *ssa.Function, bindings, args []Value, guard string) (Value, bool) {
	if e.inlineDepth >= 3 || len(callee.Blocks) == 0 || callee.Recover != nil {
		return Value{}, false
	}
	for _, b := range callee.Blocks {
		for _, ins := range b.Instrs {
			switch x := ins.(type) {
			case *ssa.Defer, *ssa.Go, *ssa.Select:
				return Value{}, false
			case ssa.CallInstruction:
				if x.Common().StaticCallee() == callee {
					return Value{}, false
				}
			}
		}
	}
	// refuse bodies with loops (they would need invariants)
	{
		seen := map[*ssa.BasicBlock]int{}
		var cyc bool
		var dfs func(b *ssa.BasicBlock)
		dfs = func(b *ssa.BasicBlock) {
			seen[b] = 1
			for _, s := range b.Succs {
				if seen[s] == 1 {
					cyc = true
				} else if seen[s] == 0 {
					dfs(s)
				}
			}
			seen[b] = 2
		}
		dfs(callee.Blocks[0])
		if cyc {
			return Value{}, false
		}
	}
	savedFn, savedCur, savedInstr, savedRets, savedLoops, savedBack, savedReach, savedWB := e.Fn, e.cur, e.curInstr, e.rets, e.loops, e.backEdge, e.reach, e.writeBlk
	if e.writeBlk == nil {
		e.writeBlk = e.cur
	}
	defer func() {
		e.Fn, e.cur, e.curInstr, e.rets, e.loops, e.backEdge, e.writeBlk = savedFn, savedCur, savedInstr, savedRets, savedLoops, savedBack, savedWB
		e.inlineDepth--
	}()
	e.inlineDepth++
	e.inlined[FuncKey(callee)] = true
	e.Fn, e.rets = callee, nil
	e.loops = map[*ssa.BasicBlock]*loopInfo{}
	e.backEdge = map[[2]*ssa.BasicBlock]bool{}
	for i, p := range callee.Params {
		if i < len(args) {
			e.vals[p] = e.conv(args[i], p.Type())
		}
	}
	for i, fv := range callee.FreeVars {
		if i < len(bindings) {
			e.vals[fv] = bindings[i]
		}
	}
	pre := e.st
	entryReach := savedReach
	if guard != "" && guard != "true" {
		entryReach = e.define("inl", "Bool", "(and "+savedReach+" "+guard+")")
	}
	e.execBlocks(pre.clone(), entryReach)
	rets := e.rets
	// back in the caller
	e.Fn, e.cur, e.curInstr = savedFn, savedCur, savedInstr
	if len(rets) == 0 {
		// the helper never returns normally on this path
		e.st = pre
		e.reach = savedReach
		if guard == "" || guard == "true" {
			e.assume("false")
		} else {
			e.assume("(not " + guard + ")")
		}
		return e.freshResult(callee), true
	}
	var ins []incoming
	var conds []string
	for _, r := range rets {
		ins = append(ins, incoming{cond: r.reach, st: r.st})
		conds = append(conds, r.reach)
	}
	if guard != "" && guard != "true" {
		ins = append(ins, incoming{cond: "(and " + savedReach + " (not " + guard + "))", st: pre})
	}
	e.st = e.mergeStates(ins)
	// the caller continues on every path on which the helper returned (or was not called)
	parts := append([]string{}, conds...)
	if guard != "" && guard != "true" {
		parts = append(parts, "(and "+savedReach+" (not "+guard+"))")
	}
	if len(parts) == 1 {
		e.reach = parts[0]
	} else {
		e.reach = e.define("Rinl", "Bool", "(or "+strings.Join(parts, " ")+")")
	}
	sig := callee.Signature
	nres := sig.Results().Len()
	var results []Value
	for i := 0; i < nres; i++ {
		var vs []Value
		for _, r := range rets {
			vs = append(vs, e.conv(r.results[i], sig.Results().At(i).Type()))
		}
		m := mergeValues(conds, vs)
		for k := range m.S {
			if strings.HasPrefix(m.S[k], "(ite") {
				m.S[k] = e.define("inlres", slotsOf(m.T)[k].Sort, m.S[k])
			}
		}
		results = append(results, m)
	}
	switch nres {
	case 0:
		return Value{T: sig.Results()}, true
	case 1:
		return results[0], true
	}
	return Value{T: sig.Results(), Tup: results}, true
}

func (e *Exec) freshResult(callee *ssa.Function) Value {
	rs := callee.Signature.Results()
	switch rs.Len() {
	case 0:
		return Value{T: rs}
	case 1:
		return e.freshValue("inl_noret", rs.At(0).Type())
	}
	var tup []Value
	for i := 0; i < rs.Len(); i++ {
		tup = append(tup, e.freshValue("inl_noret", rs.At(i).Type()))
	}
	return Value{T: rs, Tup: tup}
}

func (e *Exec) loopHeaderText(li *loopInfo) string {
	min := token.Pos(1 << 40)
	for b := range li.blocks {
		for _, ins := range b.Instrs {
			if p := ins.Pos(); p.IsValid() && p < min {
				min = p
			}
		}
	}
	return e.srcLine(min)
}

// tryInv evaluates an invariant; an invariant that no longer binds (unknown local, changed type)
// yields ok=false.
func (e *Exec) tryInv(env *Env, inv *Clause) (t string, ok bool) {
	defer func() {
		if r := recover(); r != nil {
			switch r.(type) {
			case specError, contractError:
				ok = false
			default:
				panic(r)
			}
		}
	}()
	return e.evalSpecBool(env, inv.Expr, e.Con, "invariant"), true
}

func (e *Exec) enterLoop(li *loopInfo) {
	s := e.st
	if li.spec == nil {
		// a loop without an invariant in the contract (typically one that a code change added): it is cut with
		// the invariant "true" - everything it writes is unknown afterwards. Sound; what the contract promised
		// beyond the loop then usually fails, which is the report.
		li.spec = &LoopSpec{Ordinal: li.ordinal}
		if !e.discovery {
			fmt.Fprintf(os.Stderr, "note: %s loop %d (%q) has no invariant in the contract: cut with 'true'\n", shortKey(e.Key), li.ordinal, e.loopHeaderText(li))
		}
	}
	hdr := e.loopHeaderText(li)
	if li.spec.Header != "" && !strings.Contains(hdr, li.spec.Header) {
		// the loop header was edited: that alone is no failure (a renamed variable that the invariants do not
		// mention, a changed bound that they still cover); the invariants are tried against the loop with this
		// ordinal, and whatever can no longer be bound or proved is the failed obligation
		if !e.discovery {
			fmt.Fprintf(os.Stderr, "note: %s loop %d: contract written for header %q, source has %q\n", shortKey(e.Key), li.ordinal, li.spec.Header, hdr)
		}
	}
	env := &Env{e: e, vars: map[string]Value{}, st: s, old: e.entry, pkgPath: e.Con.PkgPath, lookup: e.localEnv(s)}
	for i, inv := range li.spec.Invs {
		if !inv.activeFor(e.Prop) {
			continue
		}
		lbl := inv.Label
		if lbl == "" {
			lbl = fmt.Sprintf("%d.%d", li.ordinal, i+1)
		}
		t, ok := e.tryInv(env, inv)
		if !ok {
			e.oblige("inv.bind", lbl, "invariant no longer binds to the loop's variables: "+inv.Text, inv.Props, "", "false")
			continue
		}
		e.oblige("inv.entry", lbl, inv.Text, inv.Props, "", t)
	}
	// havoc everything the loop writes
	wset := map[string]bool{}
	for b := range li.blocks {
		for k := range e.writes[b] {
			wset[k] = true
		}
	}
	if wset["*ALL"] {
		delete(wset, "*ALL")
		for k := range e.compSort {
			if strings.HasPrefix(k, "H|") || strings.HasPrefix(k, "E|") || strings.HasPrefix(k, "M|") || strings.HasPrefix(k, "G|") {
				wset[k] = true
			}
		}
	}
	var keys []string
	for k := range wset {
		keys = append(keys, k)
	}
	sort.Strings(keys)
	for _, k := range keys {
		if strings.HasPrefix(k, "cell:") {
			a := e.cellByKey[k]
			old, ok := s.cells[a]
			if !ok {
				continue // allocated inside the loop
			}
			sl := slotsOf(a.Type().(*types.Pointer).Elem())
			nw := make([]string, len(old))
			for i := range old {
				nw[i] = e.freshConst("lh_"+a.Comment+sl[i].Path, sl[i].Sort)
			}
			s.cells[a] = nw
			e.assumeWF(s, Value{T: a.Type().(*types.Pointer).Elem(), S: nw}, false)
			continue
		}
		if strings.HasPrefix(k, "D|") {
			continue
		}
		sortS := e.compSort[k]
		old := e.compTerm(s, k, sortS)
		nw := e.freshConst("lh_"+k, sortS)
		s.comp[k] = nw
		if k == "W" {
			e.assume("(>= " + nw + " " + old + ")")
		}
	}
	env = &Env{e: e, vars: map[string]Value{}, st: s, old: e.entry, pkgPath: e.Con.PkgPath, lookup: e.localEnv(s)}
	for _, inv := range li.spec.Invs {
		if !inv.activeFor(e.Prop) {
			continue
		}
		if t, ok := e.tryInv(env, inv); ok {
			e.assume(t)
		}
	}
	if li.spec.Decreases != nil {
		if d, ok := e.tryVal(env, li.spec.Decreases); ok {
			li.header = e.define("variant", "Int", d.S[0])
		} else {
			e.oblige("inv.bind", fmt.Sprintf("%d.decreases", li.ordinal), "variant no longer binds: "+li.spec.DecText, nil, "", "false")
		}
	}
	e.cover("cover.loop", fmt.Sprint(li.ordinal), e.reach)
}

func (e *Exec) checkBackEdge(li *loopInfo, reach string) {
	s := e.st
	save := e.reach
	e.reach = reach
	defer func() { e.reach = save }()
	env := &Env{e: e, vars: map[string]Value{}, st: s, old: e.entry, pkgPath: e.Con.PkgPath, lookup: e.localEnv(s)}
	for i, inv := range li.spec.Invs {
		if !inv.activeFor(e.Prop) {
			continue
		}
		lbl := inv.Label
		if lbl == "" {
			lbl = fmt.Sprintf("%d.%d", li.ordinal, i+1)
		}
		t, ok := e.tryInv(env, inv)
		if !ok {
			continue
		}
		e.oblige("inv.preserve", lbl, inv.Text, inv.Props, "", t)
	}
	if li.spec.Decreases != nil && li.header != "" {
		d, ok := e.tryVal(env, li.spec.Decreases)
		if !ok {
			return
		}
		e.oblige("decreases", fmt.Sprint(li.ordinal), li.spec.DecText, nil, "", "(and (<= 0 "+li.header+") (< "+d.S[0]+" "+li.header+"))")
	}
}

func (e *Exec) terminate(b *ssa.BasicBlock) {
	if len(b.Instrs) == 0 {
		return
	}
	last := b.Instrs[len(b.Instrs)-1]
	e.curInstr = last
	edge := func(succ *ssa.BasicBlock, cond string) {
		reach := e.reach
		if cond != "true" {
			reach = e.define(fmt.Sprintf("E%d_%d", b.Index, succ.Index), "Bool", "(and "+e.reach+" "+cond+")")
		}
		if e.backEdge[[2]*ssa.BasicBlock{b, succ}] {
			e.checkBackEdge(e.loops[succ], reach)
			return
		}
		e.edgeOut[[2]*ssa.BasicBlock{b, succ}] = &blockCtx{reach: reach, st: e.st}
	}
	switch t := last.(type) {
	case *ssa.If:
		c := e.val(t.Cond).S[0]
		edge(b.Succs[0], c)
		edge(b.Succs[1], "(not "+c+")")
	case *ssa.Jump:
		edge(b.Succs[0], "true")
	case *ssa.Return:
		var rs []Value
		for _, r := range t.Results {
			rs = append(rs, e.val(r))
		}
		e.rets = append(e.rets, retSite{reach: e.reach, st: e.st, results: rs})
	case *ssa.Panic:
	default:
		unsupportedf("terminator %T", last)
	}
}

func (e *Exec) finish(vars map[string]Value) {
	e.cur = nil
	e.curInstr = nil
	if len(e.rets) == 0 {
		// function never returns normally (infinite loop or panic only)
		return
	}
	var ins []incoming
	var conds []string
	for _, r := range e.rets {
		ins = append(ins, incoming{cond: r.reach, st: r.st})
		conds = append(conds, r.reach)
	}
	if len(conds) == 1 {
		e.reach = conds[0]
	} else {
		e.reach = e.define("Rexit", "Bool", "(or "+strings.Join(conds, " ")+")")
	}
	exit := e.mergeStates(ins)
	e.st = exit
	nres := len(e.rets[0].results)
	results := make([]Value, nres)
	sig := e.Fn.Signature
	for i := 0; i < nres; i++ {
		var vs []Value
		for _, r := range e.rets {
			vs = append(vs, e.conv(r.results[i], sig.Results().At(i).Type()))
		}
		m := mergeValues(conds, vs)
		// name the merged slots to keep terms small
		for k := range m.S {
			if strings.HasPrefix(m.S[k], "(ite") {
				m.S[k] = e.define("res", slotsOf(m.T)[k].Sort, m.S[k])
			}
		}
		results[i] = m
	}
	env := &Env{e: e, vars: map[string]Value{}, st: exit, old: e.entry, pkgPath: e.Con.PkgPath}
	for k, v := range vars {
		env.vars[k] = v
	}
	rn := resultNames(e.Con, sig)
	for i, n := range rn {
		if i < nres {
			env.vars[n] = results[i]
		}
	}
	if nres == 1 {
		env.vars["result"] = results[0]
	}
	e.rpResults = results
	e.rpExitE = map[string]string{}
	for name, term := range exit.comp {
		if strings.HasPrefix(name, "E|") {
			e.rpExitE[name] = term
		}
	}
	for _, ga := range e.Con.GhostRet {
		// locals that exist on every return path are in scope (after parameters and results)
		genv := &Env{e: e, vars: env.vars, st: exit, old: e.entry, pkgPath: env.pkgPath, lookup: e.localEnv(exit)}
		e.ghostAssignEnv(exit, genv, ga)
	}
	e.cover("cover.exit", "", e.reach)
	// case split of the postconditions over the dynamic type of interface-valued expressions
	type splitCase struct{ guard, label string }
	cases := []splitCase{{"", ""}}
	entryEnv := &Env{e: e, vars: env.vars, st: e.entry, old: e.entry, pkgPath: e.Con.PkgPath}
	for si, sx := range e.Con.Split {
		v := e.evalSpecSafe(entryEnv, sx, e.Con, "split")
		if !isInterface(v.T) {
			panic(contractError{fmt.Sprintf("%s: split needs an interface-valued expression", e.Con.RawName)})
		}
		var next []splitCase
		for _, c := range cases {
			for _, dyn := range e.implTypes(v.T) {
				g := fmt.Sprintf("(= %s %d)", v.S[0], typeReg.id(dyn))
				if c.guard != "" {
					g = "(and " + c.guard + " " + g + ")"
				}
				next = append(next, splitCase{g, c.label + "[" + e.Con.SplitTxt[si] + "=" + typeKey(dyn) + "]"})
			}
		}
		cases = next
	}
	if e.Con.SplitRet && len(e.rets) > 1 {
		var next []splitCase
		for _, c := range cases {
			for k, r := range e.rets {
				g := r.reach
				if c.guard != "" {
					g = "(and " + c.guard + " " + g + ")"
				}
				next = append(next, splitCase{g, fmt.Sprintf("%s[return#%d]", c.label, k+1)})
			}
		}
		cases = next
	}
	for i, en := range e.Con.Ensures {
		if !en.activeFor(e.Prop) {
			continue
		}
		t := e.evalSpecBool(env, en.Expr, e.Con, "ensures")
		lbl := en.Label
		if lbl == "" {
			lbl = fmt.Sprintf("%d", i+1)
		}
		isKnown := false
		for _, c := range cases {
			e.oblige("post", lbl+c.label, en.Text, en.Props, c.guard, t)
			if knownFailing[e.Key+"#post["+lbl+c.label+"]"] {
				isKnown = true
			}
		}
		// assert-then-assume: later postconditions (and the interface contract) may use this one -
		// unless it is recorded as a known finding (it does not hold, so it must not support other proofs)
		if !isKnown {
			e.assume(t)
		}
	}
	// behavioural subtyping: the contract of an interface method binds every implementation
	for _, ic := range e.ifaceContractsFor() {
		ienv := &Env{e: e, vars: map[string]Value{}, st: exit, old: e.entry, pkgPath: ic.PkgPath}
		for i, p := range e.Fn.Params {
			if i < len(ic.Params) {
				ienv.vars[ic.Params[i].Name] = e.vals[p]
				if i == 0 {
					// the receiver is seen through the interface
					ienv.vars[ic.Params[i].Name] = e.makeIface(exit, e.vals[p], p.Type())
				}
			}
		}
		for i, r := range ic.Results {
			if i < nres {
				ienv.vars[r.Name] = results[i]
			}
		}
		for i, en := range ic.Ensures {
			if !en.activeFor(e.Prop) {
				continue
			}
			t := e.evalSpecBool(ienv, en.Expr, ic, "ensures")
			lbl := en.Label
			if lbl == "" {
				lbl = fmt.Sprintf("%d", i+1)
			}
			e.oblige("post", "iface:"+lbl, en.Text, en.Props, "", t)
		}
		// frame inclusion (component level)
		pre := &Env{e: e, vars: ienv.vars, st: e.entry, old: e.entry, pkgPath: ic.PkgPath}
		var allowed []modEntry
		for i, m := range ic.Modifies {
			allowed = append(allowed, e.modEntriesSafe(pre, m, ic.ModText[i], ic)...)
		}
		for _, own := range e.mods {
			ok := false
			for _, a := range allowed {
				if a.comp == own.comp && (a.ref == "" || a.ref == own.ref) {
					ok = true
				}
			}
			if !ok {
				panic(contractError{fmt.Sprintf("%s: frame entry %q is not covered by the interface contract %s", e.Con.RawName, own.text, ic.RawName)})
			}
		}
	}
}

func (e *Exec) ghostAssign(s *State, env *Env, ga *GhostAssign) {
	g, ok := e.CS.Ghost[ga.Name]
	if !ok {
		panic(contractError{fmt.Sprintf("%s: ghostdo on unknown ghost variable %s", e.Con.RawName, ga.Name)})
	}
	cur := &Env{e: e, vars: env.vars, st: s, old: e.entry, pkgPath: env.pkgPath}
	e.ghostAssignIn(s, cur, g, ga)
}

// ghostAssignEnv executes a ghost statement with a caller-supplied environment (locals in scope).
func (e *Exec) ghostAssignEnv(s *State, env *Env, ga *GhostAssign) {
	g, ok := e.CS.Ghost[ga.Name]
	if !ok {
		panic(contractError{fmt.Sprintf("%s: ghost statement on unknown ghost variable %s", e.Con.RawName, ga.Name)})
	}
	e.ghostAssignIn(s, env, g, ga)
}

func (e *Exec) ghostAssignIn(s *State, cur *Env, g *GhostVar, ga *GhostAssign) {
	t := cur.resolveTypeIn(g.Ty, g.PkgPath)
	val := e.evalSpecSafe(cur, ga.Val, e.Con, "ghostdo")
	if ga.Key != nil {
		sort := slotsOf(t)[0].Sort
		comp := "G|" + ga.Name
		old := e.compTerm(s, comp, sort)
		gm := t.Underlying().(*GhostMap)
		k := cur.coerceKey(e.evalSpecSafe(cur, ga.Key, e.Con, "ghostdo"), gm.K)
		nw := "(store " + old + " " + k + " " + cur.coerce(val, gm.V).S[0] + ")"
		e.frameCheck(comp, "")
		e.setComp(s, comp, sort, nw)
		return
	}
	v := cur.coerce(val, t)
	for i, sd := range slotsOf(t) {
		comp := "G|" + ga.Name + sd.Path
		e.compTerm(s, comp, sd.Sort)
		e.frameCheck(comp, "")
		e.setComp(s, comp, sd.Sort, v.S[i])
	}
}

// ifaceContractsFor returns the interface-method contracts this function has to honour.
func (e *Exec) ifaceContractsFor() []*Contract {
	recv := e.Fn.Signature.Recv()
	if recv == nil {
		return nil
	}
	var out []*Contract
	for _, k := range sortedKeys(e.CS.ByKey) {
		ic := e.CS.ByKey[k]
		if !ic.Iface || !strings.HasSuffix(k, "."+e.Fn.Name()) {
			continue
		}
		// key = pkgpath.Iface.Method
		rest := strings.TrimSuffix(k, "."+e.Fn.Name())
		i := strings.LastIndex(rest, ".")
		if i < 0 {
			continue
		}
		sp, ok := e.P.ByPkg[rest[:i]]
		if !ok {
			continue
		}
		o := sp.Pkg.Scope().Lookup(rest[i+1:])
		if o == nil {
			continue
		}
		it, ok := o.Type().Underlying().(*types.Interface)
		if !ok {
			continue
		}
		if types.Implements(recv.Type(), it) {
			out = append(out, ic)
		}
	}
	return out
}

func (e *Exec) tryVal(env *Env, x *SExpr) (v Value, ok bool) {
	defer func() {
		if r := recover(); r != nil {
			switch r.(type) {
			case specError, contractError:
				ok = false
			default:
				panic(r)
			}
		}
	}()
	return e.evalSpecSafe(env, x, e.Con, "decreases"), true
}
