package main

import (
	"bytes"
	"encoding/json"
	"fmt"
	"os"
	"os/exec"
	"path/filepath"
	"strings"
)

// Replay recipes: hand-written in-package tests under /verif/replays/<name>/ that exercise a
// finding on the real code through `go test -overlay` (nothing is written into /repo).
type Recipe struct {
	Name       string   `json:"name"`
	Properties []string `json:"properties"`
	Pkg        string   `json:"pkg"`
	Test       string   `json:"test"`
	Expect     string   `json:"expect"` // "pass" (fixed defect: must not reproduce) | "fail" (known finding: must reproduce)
	Status     string   `json:"status"`
	Quick      bool     `json:"quick,omitempty"` // also run in the quick tier (cheap bounded stand-ins)
	What       string   `json:"what"`
	Extra      []string `json:"extra_overlay,omitempty"` // "repoRelPath=recipeRelPath"
	Rewrite    []struct {
		File string `json:"file"`
		From string `json:"from"`
		To   string `json:"to"`
	} `json:"rewrite,omitempty"` // mechanical substitutions applied to a copy of a repository file (overlay only)
	dir string
}

func loadRecipes(root string) []*Recipe {
	var out []*Recipe
	ms, _ := filepath.Glob(filepath.Join(root, "replays", "*", "meta.json"))
	for _, m := range ms {
		b, err := os.ReadFile(m)
		if err != nil {
			continue
		}
		var r Recipe
		if json.Unmarshal(b, &r) != nil {
			continue
		}
		r.dir = filepath.Dir(m)
		out = append(out, &r)
	}
	return out
}

// runRecipe returns (testPassed, transcript).
func runRecipe(root, repo string, r *Recipe) (bool, string) {
	work := filepath.Join(root, ".work", "recipes", r.Name)
	_ = os.MkdirAll(work, 0755)
	repl := map[string]string{filepath.Join(repo, r.Pkg, "zz_replay_"+r.Name+"_test.go"): filepath.Join(r.dir, "test.go")}
	for _, x := range r.Extra {
		kv := strings.SplitN(x, "=", 2)
		if len(kv) == 2 {
			repl[filepath.Join(repo, kv[0])] = filepath.Join(r.dir, kv[1])
		}
	}
	if strings.HasPrefix(r.Pkg, "internal") && (r.Pkg == "internal" || strings.HasPrefix(r.Pkg, "internal/hwmon") || r.Pkg == "cmd") {
		stub := filepath.Join(work, "gosensors_stub.go")
		_ = os.WriteFile(stub, []byte(gosensorsStub()), 0644)
		repl[gosensorsFile()] = stub
	}
	for i, rw := range r.Rewrite {
		src, err := os.ReadFile(filepath.Join(repo, rw.File))
		if err != nil {
			return false, "REPLAY rewrite: " + err.Error()
		}
		if !strings.Contains(string(src), rw.From) {
			return false, "REPLAY rewrite: pattern not found in " + rw.File + ": " + rw.From
		}
		dst := filepath.Join(work, fmt.Sprintf("rewrite%d_%s", i, filepath.Base(rw.File)))
		_ = os.WriteFile(dst, []byte(strings.ReplaceAll(string(src), rw.From, rw.To)), 0644)
		repl[filepath.Join(repo, rw.File)] = dst
	}
	ov, _ := json.Marshal(map[string]interface{}{"Replace": repl})
	ovf := filepath.Join(work, "overlay.json")
	_ = os.WriteFile(ovf, ov, 0644)
	cmd := exec.Command("go", "test", "-overlay", ovf, "-vet=off", "-count=1", "-timeout", "120s", "-run", "^"+r.Test+"$", "./"+r.Pkg+"/")
	cmd.Dir = repo
	cmd.Env = append(os.Environ(), "GOFLAGS=-mod=mod", "GOPROXY=off", "GOSUMDB=off", "GOTOOLCHAIN=local", "CGO_ENABLED=0")
	var buf bytes.Buffer
	cmd.Stdout = &buf
	cmd.Stderr = &buf
	err := cmd.Run()
	out := buf.String()
	// keep the transcript short: drop pterm log noise
	var keep []string
	for _, l := range strings.Split(out, "\n") {
		if strings.Contains(l, "VIOLATED") || strings.HasPrefix(l, "---") || strings.HasPrefix(l, "ok") || strings.HasPrefix(l, "FAIL") || strings.Contains(l, "panic") || strings.Contains(l, "REPLAY") || strings.Contains(l, "TempDir") || strings.Contains(l, "[build failed]") || strings.HasPrefix(l, "#") {
			keep = append(keep, l)
		}
	}
	if len(keep) > 30 {
		keep = keep[:30]
	}
	return err == nil, strings.Join(keep, "\n")
}

func cmdRecipes(args []string) int {
	root := verifRoot()
	rc := 0
	for _, r := range loadRecipes(root) {
		if len(args) > 0 && args[0] != r.Name {
			continue
		}
		ok, tr := runRecipe(root, "/repo", r)
		want := r.Expect == "pass"
		st := "as-expected"
		if ok != want {
			st = "UNEXPECTED"
			rc = 1
		}
		fmt.Printf("recipe %-22s expect=%-4s passed=%-5v %s\n%s\n", r.Name, r.Expect, ok, st, indent(tr))
	}
	return rc
}

func indent(s string) string {
	if s == "" {
		return ""
	}
	return "    " + strings.ReplaceAll(s, "\n", "\n    ")
}
