package main

import (
	"bytes"
	"context"
	"encoding/json"
	"fmt"
	"os"
	"os/exec"
	"path/filepath"
	"strings"
	"sync"
	"time"
)

type SolveResult struct {
	Name     string            `json:"name"`
	Verdict  string            `json:"verdict"` // unsat sat unknown timeout error
	Solver   string            `json:"solver"`
	Seconds  float64           `json:"seconds"`
	Attempts []string          `json:"attempts"`
	Model    map[string]string `json:"model,omitempty"`
	Output   string            `json:"output,omitempty"`
	File     string            `json:"file"`
	Bytes    int               `json:"bytes"`
}

type solverSpec struct {
	name string
	args func(timeoutS int, file string) []string
}

var solvers = []solverSpec{
	{"z3-new", func(t int, f string) []string { return []string{"z3-new", fmt.Sprintf("-T:%d", t), f} }},
	{"cvc5", func(t int, f string) []string {
		return []string{"cvc5", fmt.Sprintf("--tlimit=%d", t*1000), "--produce-models", f}
	}},
	{"z3", func(t int, f string) []string { return []string{"z3", fmt.Sprintf("-T:%d", t), f} }},
}

func (o *Obligation) smt() string {
	var b strings.Builder
	for _, l := range o.vc.lines[:o.prefix] {
		b.WriteString(l)
		b.WriteByte('\n')
	}
	b.WriteString("; ---- obligation " + o.Name + "\n")
	if o.Clause != "" {
		b.WriteString("; clause: " + strings.ReplaceAll(o.Clause, "\n", " ") + "\n")
	}
	b.WriteString("(assert " + o.reach + ")\n")
	if !o.Cover {
		b.WriteString("(assert (not " + o.goal + "))\n")
	}
	b.WriteString("(check-sat)\n")
	if len(o.inputs) > 0 && !o.Cover {
		var ts []string
		for _, in := range o.inputs {
			ts = append(ts, in.Term)
		}
		b.WriteString("(get-value (" + strings.Join(ts, " ") + "))\n")
	}
	return b.String()
}

func runSolver(sp solverSpec, timeoutS int, file string) (verdict, out string, secs float64) {
	return runSolverCtx(context.Background(), sp, timeoutS, file)
}

func runSolverCtx(parent context.Context, sp solverSpec, timeoutS int, file string) (verdict, out string, secs float64) {
	ctx, cancel := context.WithTimeout(parent, time.Duration(timeoutS+5)*time.Second)
	defer cancel()
	args := sp.args(timeoutS, file)
	cmd := exec.CommandContext(ctx, args[0], args[1:]...)
	var buf bytes.Buffer
	cmd.Stdout = &buf
	cmd.Stderr = &buf
	t0 := time.Now()
	_ = cmd.Run()
	secs = time.Since(t0).Seconds()
	out = buf.String()
	first := strings.TrimSpace(strings.SplitN(out, "\n", 2)[0])
	switch first {
	case "unsat", "sat", "unknown":
		return first, out, secs
	case "timeout":
		return "timeout", out, secs
	}
	if ctx.Err() != nil || strings.Contains(out, "timeout") || strings.Contains(out, "interrupted") {
		return "timeout", out, secs
	}
	return "error", out, secs
}

// solveOne runs the portfolio on one obligation.
func solveOne(o *Obligation, dir string, timeoutS int) *SolveResult {
	text := o.smt()
	fname := filepath.Join(dir, sanitize(o.Name)+".smt2")
	if len(fname) > 240 {
		fname = fname[:200] + fmt.Sprintf("_%x.smt2", hashString(o.Name))
	}
	_ = os.WriteFile(fname, []byte(text), 0644)
	res := &SolveResult{Name: o.Name, File: fname, Bytes: len(text)}
	want := "unsat"
	if o.Cover {
		want = "sat"
	}
	decisive := func(v string) bool { return v == "unsat" || v == "sat" }
	// stage 1: z3-new alone with a short budget, stage 2: race all three with the full budget
	first := timeoutS
	if first > 4 {
		first = 4
	}
	if o.Cover {
		// vacuity guards only need to catch "unsat"; a slow "sat" is not worth waiting for
		v, out, secs := runSolver(solvers[0], 2, fname)
		res.Attempts = append(res.Attempts, fmt.Sprintf("%s:%s:%.2fs", solvers[0].name, v, secs))
		res.Verdict, res.Solver, res.Output, res.Seconds = v, solvers[0].name, out, secs
		if !decisive(v) {
			v2, out2, secs2 := runSolver(solvers[1], 2, fname)
			res.Attempts = append(res.Attempts, fmt.Sprintf("%s:%s:%.2fs", solvers[1].name, v2, secs2))
			if decisive(v2) {
				res.Verdict, res.Solver, res.Output = v2, solvers[1].name, out2
			}
			res.Seconds += secs2
		}
		return res
	}
	// a solver known to decide this obligation (recorded by an earlier run, solver_hints.json) goes first
	if h := solverHints[o.Name]; h != "" && h != solvers[0].name {
		for _, sp := range solvers {
			if sp.name == h {
				hv, hout, hsecs := runSolver(sp, 8, fname)
				res.Attempts = append(res.Attempts, fmt.Sprintf("%s:%s:%.2fs", sp.name, hv, hsecs))
				res.Seconds += hsecs
				if decisive(hv) {
					res.Verdict, res.Solver, res.Output = hv, sp.name, hout
					if res.Verdict == "sat" && !o.Cover {
						res.Model = parseGetValue(res.Output, o.inputs)
					}
					return res
				}
			}
		}
	}
	v, out, secs := runSolver(solvers[0], first, fname)
	res.Attempts = append(res.Attempts, fmt.Sprintf("%s:%s:%.2fs", solvers[0].name, v, secs))
	res.Seconds += secs
	if decisive(v) {
		res.Verdict, res.Solver, res.Output = v, solvers[0].name, out
	} else {
		type r struct {
			v, out, name string
			secs         float64
		}
		ch := make(chan r, len(solvers))
		rctx, rcancel := context.WithCancel(context.Background())
		for _, sp := range solvers {
			sp := sp
			go func() {
				v, out, secs := runSolverCtx(rctx, sp, timeoutS, fname)
				ch <- r{v, out, sp.name, secs}
			}()
		}
		best := r{v: v, out: out, name: solvers[0].name}
		for range solvers {
			x := <-ch
			res.Attempts = append(res.Attempts, fmt.Sprintf("%s:%s:%.2fs", x.name, x.v, x.secs))
			if decisive(x.v) && !decisive(best.v) {
				best = x
				res.Seconds += x.secs
				break // the first decisive answer wins; the other solvers are stopped
			}
		}
		rcancel()
		if !decisive(best.v) {
			res.Seconds += float64(timeoutS)
		}
		res.Verdict, res.Solver, res.Output = best.v, best.name, best.out
	}
	if res.Verdict == "sat" && !o.Cover {
		res.Model = parseGetValue(res.Output, o.inputs)
	}
	if len(res.Output) > 4000 {
		res.Output = res.Output[:4000]
	}
	_ = want
	return res
}

func hashString(s string) uint32 {
	h := uint32(2166136261)
	for i := 0; i < len(s); i++ {
		h ^= uint32(s[i])
		h *= 16777619
	}
	return h
}

// parseGetValue extracts ((term value) ...) pairs in order.
func parseGetValue(out string, inputs []ModelVar) map[string]string {
	m := map[string]string{}
	i := strings.Index(out, "((")
	if i < 0 {
		return m
	}
	body := out[i+1:]
	// split top-level s-expressions
	depth := 0
	start := -1
	var items []string
	for j, c := range body {
		switch c {
		case '(':
			if depth == 0 {
				start = j
			}
			depth++
		case ')':
			depth--
			if depth == 0 && start >= 0 {
				items = append(items, body[start:j+1])
				start = -1
			}
			if depth < 0 {
				goto done
			}
		}
	}
done:
	for k, it := range items {
		if k >= len(inputs) {
			break
		}
		inner := strings.TrimSpace(it[1 : len(it)-1])
		term := inputs[k].Term
		val := strings.TrimSpace(strings.TrimPrefix(inner, term))
		m[inputs[k].Name] = val
	}
	return m
}

func solveAll(obls []*Obligation, dir string, timeoutS, par int) []*SolveResult {
	_ = os.MkdirAll(dir, 0755)
	out := make([]*SolveResult, len(obls))
	var wg sync.WaitGroup
	sem := make(chan struct{}, par)
	for i, o := range obls {
		i, o := i, o
		wg.Add(1)
		sem <- struct{}{}
		go func() {
			defer wg.Done()
			defer func() { <-sem }()
			out[i] = solveOne(o, dir, timeoutS)
		}()
	}
	wg.Wait()
	return out
}

// solverHints: obligation name -> the solver that decided it in an earlier run (committed file
// solver_hints.json, written with GOVC_WRITE_HINTS=1). Only an ordering hint: a wrong or missing entry costs
// time, never a verdict.
var solverHints = map[string]string{}

func loadSolverHints(root string) {
	if b, err := os.ReadFile(filepath.Join(root, "solver_hints.json")); err == nil {
		_ = json.Unmarshal(b, &solverHints)
	}
}

func writeSolverHints(root string, obls []*Obligation, results []*SolveResult) {
	loadSolverHints(root)
	for i, r := range results {
		if obls[i].Cover {
			continue
		}
		if r.Verdict == "unsat" && r.Solver != solvers[0].name {
			solverHints[obls[i].Name] = r.Solver
		} else if r.Solver == solvers[0].name {
			delete(solverHints, obls[i].Name)
		}
	}
	b, _ := json.MarshalIndent(solverHints, "", " ")
	_ = os.WriteFile(filepath.Join(root, "solver_hints.json"), b, 0644)
}
