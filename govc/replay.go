package main

import (
	"encoding/json"
	"fmt"
	"os"
	"path/filepath"
)

type ReplayFile struct {
	Property   string            `json:"property"`
	Obligation string            `json:"obligation"`
	Function   string            `json:"function"`
	Class      string            `json:"class"`
	Clause     string            `json:"clause"`
	Anchor     string            `json:"anchor"`
	Pos        string            `json:"pos"`
	Verdict    string            `json:"verdict"`
	Solver     string            `json:"solver"`
	Attempts   []string          `json:"attempts"`
	SolverOut  string            `json:"solver_output"`
	Model      map[string]string `json:"model,omitempty"`
	SMTFile    string            `json:"smt_file"`
	Reproduced bool              `json:"reproduced_on_real_code"`
	ReplayTest string            `json:"replay_test,omitempty"`
	ReplayCmd  string            `json:"replay_cmd,omitempty"`
	Transcript string            `json:"replay_transcript,omitempty"`
	Note       string            `json:"note,omitempty"`
	Path       string            `json:"-"`
}

func writeReplay(root string, p *Program, prop string, o *Obligation, r *SolveResult) *ReplayFile {
	dir := filepath.Join(root, ".work", prop, "replay")
	_ = os.MkdirAll(dir, 0755)
	rf := &ReplayFile{Property: prop, Obligation: o.Name, Function: o.Func, Class: o.Class, Clause: o.Clause, Anchor: o.Anchor, Pos: o.Pos,
		Verdict: r.Verdict, Solver: r.Solver, Attempts: r.Attempts, SolverOut: r.Output, Model: r.Model, SMTFile: r.File}
	name := sanitize(o.Name)
	if len(name) > 150 {
		name = name[:150] + fmt.Sprintf("_%x", hashString(o.Name))
	}
	rf.Path = filepath.Join(dir, name+".json")
	if r.Verdict == "sat" && len(r.Model) > 0 {
		tryReplay(root, p, o, r, rf)
	} else if r.Verdict != "sat" {
		rf.Note = "the solver returned no model (" + r.Verdict + "); the obligation is reported as failed because it is not discharged"
	}
	b, _ := json.MarshalIndent(rf, "", " ")
	_ = os.WriteFile(rf.Path, b, 0644)
	return rf
}

func writeVacuity(root, prop, name string) string {
	dir := filepath.Join(root, ".work", prop, "replay")
	_ = os.MkdirAll(dir, 0755)
	path := filepath.Join(dir, sanitize(name)+".json")
	b, _ := json.MarshalIndent(map[string]string{"property": prop, "obligation": name, "note": "vacuity guard: the preconditions / path conditions at this point are unsatisfiable, so everything proved under them is vacuous"}, "", " ")
	_ = os.WriteFile(path, b, 0644)
	return path
}
