package main

import (
	"fmt"
	"go/token"
	"go/types"
	"sort"
	"strings"

	"golang.org/x/tools/go/ssa"
)

// ---------------------------------------------------------------------------------------------
// VC: ordered SMT-LIB lines (declarations and assertions) plus named obligations; an obligation
// is checked against the prefix of lines that existed when it was created.
// ---------------------------------------------------------------------------------------------

type Obligation struct {
	Name     string   `json:"name"`
	Func     string   `json:"func"`
	Class    string   `json:"class"` // post pre inv.entry inv.preserve decreases frame safe.* nofatal cover.*
	Label    string   `json:"label"`
	Anchor   string   `json:"anchor"`
	Pos      string   `json:"pos"`
	Clause   string   `json:"clause"`
	Props    []string `json:"props"`
	Cover    bool     `json:"cover"` // must be SAT (vacuity guard)
	prefix   int
	goal     string // prove: reach => goal ; cover: satisfiable(reach)
	reach    string
	vc       *VC
	inputs   []ModelVar
	FileHint string     `json:"-"`
	rp       *replayCtx // what a generic replay needs (function, parameter values, results at exit)
}

// replayCtx: enough of the symbolic state to turn a model into a call of the real function.
type replayCtx struct {
	fn      *ssa.Function
	params  []Value
	names   []string
	results []Value           // at post obligations: the merged results
	exitE   map[string]string // element components in the exit state (for slice results)
	init    map[string]string // initial versions of the components (name -> term)
}

type ModelVar struct {
	Name string // human name e.g. "target", "arr.len", "arr[0]"
	Term string
}

type VC struct {
	lines    []string
	obls     []*Obligation
	declared map[string]bool
}

func (vc *VC) add(line string) { vc.lines = append(vc.lines, line) }

type unsupported struct{ msg string }

func unsupportedf(f string, a ...interface{}) { panic(unsupported{fmt.Sprintf(f, a...)}) }

type State struct {
	cells map[*ssa.Alloc][]string
	comp  map[string]string
}

func (s *State) clone() *State {
	n := &State{cells: make(map[*ssa.Alloc][]string, len(s.cells)), comp: make(map[string]string, len(s.comp))}
	for k, v := range s.cells {
		n.cells[k] = v // slices are treated immutably (copy on write)
	}
	for k, v := range s.comp {
		n.comp[k] = v
	}
	return n
}

type modEntry struct {
	comp string
	ref  string // "" = whole component
	text string
	cond string // "" or a guard (conditional frame entry of an extern)
}

type loopInfo struct {
	head    *ssa.BasicBlock
	ordinal int
	spec    *LoopSpec
	blocks  map[*ssa.BasicBlock]bool
	header  string
}

type blockCtx struct {
	reach string
	st    *State
}

type retSite struct {
	reach   string
	st      *State
	results []Value
}

type Exec struct {
	P    *Program
	CS   *Contracts
	Fn   *ssa.Function
	Key  string
	Con  *Contract
	Prop string
	vc   *VC
	ns   string

	vals     map[ssa.Value]Value
	compSort map[string]string
	compInit map[string]string
	nfresh   int

	entry       *State
	entryW      string
	writeBlk    *ssa.BasicBlock // while a helper is inlined: the caller's block, to which its writes are attributed
	inlineDepth int
	inlined     map[string]bool
	frozenElems map[string]bool // element components that must not be written any more (see slice with low bound)
	rpParams    []Value
	rpNames     []string
	rpResults   []Value
	rpExitE     map[string]string
	params      map[string]Value
	mods        []modEntry
	hasMods     bool

	cur      *ssa.BasicBlock
	reach    string
	st       *State
	curInstr ssa.Instruction

	blockIn  map[*ssa.BasicBlock]*blockCtx
	edgeOut  map[[2]*ssa.BasicBlock]*blockCtx // forward edges: state+cond at end of pred
	rets     []retSite
	loops    map[*ssa.BasicBlock]*loopInfo
	backEdge map[[2]*ssa.BasicBlock]bool

	discovery bool
	writes    map[*ssa.BasicBlock]map[string]bool // comps and cells ("cell:<ptr>") written per block
	cellByKey map[string]*ssa.Alloc

	defers    []*ssa.Defer
	sideCells map[*ssa.Alloc]Value
	deferRecs []deferRec
	quiet     int // >0 while evaluating inside a quantifier: no side facts may be emitted

	fl *floatCtx

	strConsts     map[string]string
	anchors       map[string]int
	usedCallees   map[string]bool
	checkOverflow bool
	inputs        []ModelVar
	lemmaMode     bool
}

func (e *Exec) fresh(prefix string) string {
	e.nfresh++
	return fmt.Sprintf("%s%s!%d", e.ns, sanitize(prefix), e.nfresh)
}

func (e *Exec) declare(name, sort string) {
	if e.discovery {
		return
	}
	e.vc.add(fmt.Sprintf("(declare-const %s %s)", name, sort))
}

func (e *Exec) freshConst(prefix, sort string) string {
	n := e.fresh(prefix)
	e.declare(n, sort)
	return n
}

func (e *Exec) define(prefix, sort, term string) string {
	if e.quiet > 0 {
		return term
	}
	n := e.fresh(prefix)
	if !e.discovery {
		e.vc.add(fmt.Sprintf("(define-fun %s () %s %s)", n, sort, term))
	}
	return n
}

// assume adds a fact guarded by the current reach condition.
func (e *Exec) assume(term string) {
	if e.discovery || term == "true" {
		return
	}
	if cs := splitAnd(term); len(cs) > 1 {
		for _, c := range cs {
			e.assume(c)
		}
		return
	}
	if e.reach == "true" || e.reach == "" {
		e.vc.add("(assert " + term + ")")
	} else {
		e.vc.add("(assert (=> " + e.reach + " " + term + "))")
	}
}

func (e *Exec) axiom(term string) {
	if e.discovery {
		return
	}
	e.vc.add("(assert " + term + ")")
}

func (e *Exec) posOf(pos token.Pos) string {
	if !pos.IsValid() {
		return ""
	}
	p := e.P.Fset.Position(pos)
	return fmt.Sprintf("%s:%d", strings.TrimPrefix(p.Filename, e.P.Repo+"/"), p.Line)
}

var srcCache = map[string][]string{}

func (e *Exec) srcLine(pos token.Pos) string {
	if !pos.IsValid() {
		return ""
	}
	p := e.P.Fset.Position(pos)
	lines, ok := srcCache[p.Filename]
	if !ok {
		b, err := readFileCached(p.Filename)
		if err == nil {
			lines = strings.Split(b, "\n")
		}
		srcCache[p.Filename] = lines
	}
	if p.Line-1 < len(lines) && p.Line >= 1 {
		return strings.TrimSpace(lines[p.Line-1])
	}
	return ""
}

// anchorFor builds a stable, text-based anchor for the current instruction.
func (e *Exec) anchorFor(pos token.Pos) string {
	t := e.srcLine(pos)
	if len(t) > 70 {
		t = t[:70]
	}
	return t
}

func (e *Exec) curPos() token.Pos {
	if e.curInstr != nil {
		if p := e.curInstr.Pos(); p.IsValid() {
			return p
		}
		// fall back to operands' positions
		var ops []*ssa.Value
		for _, op := range e.curInstr.Operands(ops) {
			if op != nil && *op != nil {
				if p := (*op).Pos(); p.IsValid() {
					return p
				}
			}
		}
	}
	return token.NoPos
}

// oblige registers an obligation reach ∧ guard ⇒ goal.
func (e *Exec) oblige(class, label, clauseText string, props []string, guard, goal string) {
	if e.discovery {
		return
	}
	if (strings.HasPrefix(class, "safe.") || class == "nofatal" || class == "nopanic") && e.CS.NoSafety[e.Prop] {
		return
	}
	if (strings.HasPrefix(class, "safe.") || class == "nofatal" || class == "nopanic") && e.Con != nil && len(e.Con.Safety) > 0 && e.Prop != "" {
		on := false
		for _, p := range e.Con.Safety {
			if p == e.Prop {
				on = true
			}
		}
		if !on {
			return
		}
	}
	pos := e.curPos()
	anchor := e.anchorFor(pos)
	base := class
	if label != "" {
		base += "[" + label + "]"
	}
	if strings.HasPrefix(class, "safe.") || class == "frame" || class == "nofatal" || class == "nopanic" || strings.HasPrefix(class, "pre") {
		if anchor != "" {
			base += "@" + anchor
		}
	}
	name := e.Key + "#" + base
	e.anchors[name]++
	if n := e.anchors[name]; n > 1 {
		name = fmt.Sprintf("%s#%d", name, n)
	}
	reach := e.reach
	if guard != "" && guard != "true" {
		reach = "(and " + reach + " " + guard + ")"
	}
	o := &Obligation{Name: name, Func: e.Key, Class: class, Label: label, Anchor: anchor, Pos: e.posOf(pos), Clause: clauseText,
		Props: props, prefix: len(e.vc.lines), goal: goal, reach: reach, vc: e.vc, inputs: e.inputs}
	if e.rpParams != nil {
		o.rp = &replayCtx{fn: e.Fn, params: e.rpParams, names: e.rpNames, init: e.compInit}
		if class == "post" && e.rpResults != nil {
			o.rp.results = e.rpResults
			o.rp.exitE = e.rpExitE
		}
	}
	e.vc.obls = append(e.vc.obls, o)
}

func (e *Exec) cover(class, label string, reach string) {
	if e.discovery {
		return
	}
	name := e.Key + "#" + class
	if label != "" {
		name += "[" + label + "]"
	}
	e.anchors[name]++
	if n := e.anchors[name]; n > 1 {
		name = fmt.Sprintf("%s#%d", name, n)
	}
	o := &Obligation{Name: name, Func: e.Key, Class: class, Label: label, Cover: true, prefix: len(e.vc.lines), goal: "true", reach: reach, vc: e.vc, inputs: e.inputs}
	e.vc.obls = append(e.vc.obls, o)
}

// ---- state components --------------------------------------------------------------------------

func (e *Exec) compTerm(s *State, name, sort string) string {
	if t, ok := s.comp[name]; ok {
		return t
	}
	if t, ok := e.compInit[name]; ok {
		return t
	}
	e.compSort[name] = sort
	n := e.ns + sanitize(name) + "!0"
	// declared at first use; all states share the initial version
	if !e.discovery {
		e.vc.add(fmt.Sprintf("(declare-const %s %s)", n, sort))
		if refComp[name] && e.entryW != "" && e.Con != nil && e.Con.HeapClosed {
			switch {
			case strings.HasPrefix(name, "H|") && sort == "(Array Int Int)":
				e.vc.add(fmt.Sprintf("(assert (forall ((r!q Int)) (! (< (select %s r!q) %s) :pattern ((select %s r!q)))))", n, e.entryW, n))
			case (strings.HasPrefix(name, "E|") || strings.HasPrefix(name, "M|")) && sort == "(Array Int (Array Int Int))":
				e.vc.add(fmt.Sprintf("(assert (forall ((a!q Int) (i!q Int)) (! (< (select (select %s a!q) i!q) %s) :pattern ((select (select %s a!q) i!q)))))", n, e.entryW, n))
			}
		}
	}
	e.compInit[name] = n
	return n
}

// setCompRaw: setComp without the "frozen element component" check (used by the sub-slice copy itself)
func (e *Exec) setCompRaw(s *State, name, sort, term string) {
	saved := e.frozenElems[name]
	e.frozenElems[name] = false
	e.setComp(s, name, sort, term)
	e.frozenElems[name] = saved
}

func (e *Exec) setComp(s *State, name, sort, term string) {
	if e.frozenElems[name] {
		unsupportedf("write to elements of %s after a slice with a non-zero low bound was taken (aliasing between the two is not modelled)", name)
	}
	e.compSort[name] = sort
	if _, ok := e.compInit[name]; !ok {
		e.compTerm(s, name, sort)
	}
	if strings.HasPrefix(term, "(") && e.quiet == 0 && len(term) > 24 {
		term = e.define("h_"+name, sort, term)
	}
	s.comp[name] = term
	if e.discovery && e.cur != nil {
		blk := e.cur
		if e.writeBlk != nil {
			blk = e.writeBlk
		}
		w := e.writes[blk]
		if w == nil {
			w = map[string]bool{}
			e.writes[blk] = w
		}
		w[name] = true
	}
}

func (e *Exec) noteCellWrite(a *ssa.Alloc) {
	if e.discovery && e.cur != nil {
		blk := e.cur
		if e.writeBlk != nil {
			blk = e.writeBlk
		}
		w := e.writes[blk]
		if w == nil {
			w = map[string]bool{}
			e.writes[blk] = w
		}
		k := fmt.Sprintf("cell:%p", a)
		w[k] = true
		e.cellByKey[k] = a
	}
}

func (e *Exec) W(s *State) string { return e.compTerm(s, "W", "Int") }

func heapComp(obj types.Type, path string) string {
	n := "H|" + typeKey(obj) + "|" + path
	noteRefComp(n, obj, path)
	return n
}
func elemComp(elem types.Type, path string) string {
	n := "E|" + typeKey(elem) + "|" + path
	noteRefComp(n, elem, path)
	return n
}
func mapComp(mt types.Type, part string) string {
	n := "M|" + typeKey(mt) + "|" + part
	if strings.HasPrefix(part, "val") {
		if m, ok := mt.Underlying().(*types.Map); ok {
			noteRefComp(n, m.Elem(), part[3:])
		}
	}
	return n
}

// refComp: components whose slots hold object references (pointers, maps, channels, functions, slice
// backing arrays, interface payloads). Every reference stored in the heap when a function is entered
// refers to an object that exists then: an axiom over the entry version of such a component.
var refComp = map[string]bool{}
var refCompSeen = map[string]bool{}

func noteRefComp(name string, t types.Type, path string) {
	if refCompSeen[name] {
		return
	}
	refCompSeen[name] = true
	toks := strings.Split(strings.TrimPrefix(path, "."), ".")
	if path == "" {
		toks = nil
	}
	cur := t
	for i, tok := range toks {
		st, ok := cur.Underlying().(*types.Struct)
		if ok {
			found := false
			for k := 0; k < st.NumFields(); k++ {
				if st.Field(k).Name() == tok {
					cur = st.Field(k).Type()
					found = true
					break
				}
			}
			if found {
				continue
			}
		}
		// a slot suffix of the current type
		if i != len(toks)-1 {
			return
		}
		switch cur.Underlying().(type) {
		case *types.Slice:
			refComp[name] = tok == "arr"
		case *types.Interface:
			refComp[name] = tok == "ref"
		}
		return
	}
	switch cur.Underlying().(type) {
	case *types.Pointer, *types.Map, *types.Chan, *types.Signature, *types.Array:
		refComp[name] = true
	}
}

// subSlots locates the slots of a sub-value of type t at path inside root.
func subSlots(root types.Type, path string, t types.Type) (off, n int) {
	rs := slotsOf(root)
	ts := slotsOf(t)
	n = len(ts)
	if n == 0 {
		return 0, 0
	}
	want := path + ts[0].Path
	for i, s := range rs {
		if s.Path == want {
			return i, n
		}
	}
	panic(fmt.Sprintf("subSlots: path %q of %s not found in %s", path, t, root))
}

func (e *Exec) load(s *State, loc *Loc) Value {
	sl := slotsOf(loc.T)
	out := Value{T: loc.T, S: make([]string, len(sl))}
	switch loc.Kind {
	case LCell:
		cell, ok := s.cells[loc.Cell]
		if !ok {
			unsupportedf("read of local cell %s before its allocation", loc.Cell.Comment)
		}
		off, n := subSlots(loc.Cell.Type().(*types.Pointer).Elem(), loc.Path, loc.T)
		copy(out.S, cell[off:off+n])
	case LHeap:
		for i, sd := range sl {
			arr := e.compTerm(s, heapComp(loc.Obj, loc.Path+sd.Path), "(Array Int "+sd.Sort+")")
			out.S[i] = "(select " + arr + " " + loc.Ref + ")"
		}
	case LElem:
		for i, sd := range sl {
			arr := e.compTerm(s, elemComp(loc.Obj, loc.Path+sd.Path), "(Array Int (Array Int "+sd.Sort+"))")
			out.S[i] = "(select (select " + arr + " " + loc.Ref + ") " + loc.Idx + ")"
		}
	}
	if loc.Kind != LCell {
		e.assumeWF(s, out, false)
	}
	return out
}

func (e *Exec) store(s *State, loc *Loc, v Value) {
	if v.Fn != nil && len(slotsOf(loc.T)) == 1 {
		// a closure stored as data: an opaque, non-nil function object (calling it through the
		// stored value is not supported; storing it is)
		ref := e.alloc(s, types.NewArray(tInt, 0))
		v = Value{T: loc.T, S: []string{ref}}
	}
	if v.Loc != nil || v.Fn != nil {
		if loc.Kind == LCell {
			// a generation-time-only value kept in a local cell: remember it on the side
			unsupportedf("store of an interior pointer or closure into a cell (%s)", loc.Cell.Comment)
		}
		unsupportedf("store of an interior pointer or closure into the heap")
	}
	sl := slotsOf(loc.T)
	if len(v.S) != len(sl) {
		panic(fmt.Sprintf("store: slot mismatch %s (%d) vs value %s (%d)", loc.T, len(sl), v.T, len(v.S)))
	}
	switch loc.Kind {
	case LCell:
		old := s.cells[loc.Cell]
		if old == nil {
			unsupportedf("write to local cell %s before its allocation", loc.Cell.Comment)
		}
		off, n := subSlots(loc.Cell.Type().(*types.Pointer).Elem(), loc.Path, loc.T)
		nw := make([]string, len(old))
		copy(nw, old)
		copy(nw[off:off+n], v.S)
		s.cells[loc.Cell] = nw
		e.noteCellWrite(loc.Cell)
	case LHeap:
		for i, sd := range sl {
			name := heapComp(loc.Obj, loc.Path+sd.Path)
			sort := "(Array Int " + sd.Sort + ")"
			arr := e.compTerm(s, name, sort)
			e.frameCheck(name, loc.Ref)
			e.setComp(s, name, sort, "(store "+arr+" "+loc.Ref+" "+v.S[i]+")")
		}
	case LElem:
		for i, sd := range sl {
			name := elemComp(loc.Obj, loc.Path+sd.Path)
			sort := "(Array Int (Array Int " + sd.Sort + "))"
			arr := e.compTerm(s, name, sort)
			e.frameCheck(name, loc.Ref)
			e.setComp(s, name, sort, "(store "+arr+" "+loc.Ref+" (store (select "+arr+" "+loc.Ref+") "+loc.Idx+" "+v.S[i]+"))")
		}
	}
}

// frameCheck: a write to (component, ref) must be inside the function's modifies clause or hit
// an object allocated by this very call.
func (e *Exec) frameCheck(comp, ref string) {
	if e.discovery || e.lemmaMode || (e.Con != nil && e.Con.NoFrame) {
		return
	}
	var alts []string
	if ref != "" {
		alts = append(alts, "(>= "+ref+" "+e.entryW+")")
		if strings.HasPrefix(comp, "E|") {
			// the nil backing array has no elements
			alts = append(alts, "(= "+ref+" 0)")
		}
	}
	for _, m := range e.mods {
		if m.comp != comp {
			continue
		}
		if m.ref == "" || ref == "" {
			if m.ref == "" {
				alts = append(alts, "true")
			}
			continue
		}
		alts = append(alts, "(= "+ref+" "+m.ref+")")
	}
	goal := "false"
	if len(alts) == 1 {
		goal = alts[0]
	} else if len(alts) > 1 {
		goal = "(or " + strings.Join(alts, " ") + ")"
	}
	if strings.Contains(goal, " true") || goal == "true" {
		return
	}
	e.oblige("frame", sanitize(comp), "modifies", nil, "", goal)
}

// assumeWF records the intrinsic well-formedness of a value that comes from outside
// (parameters, heap loads, call results): sized integer ranges, len/cap, allocatedness.
func (e *Exec) assumeWF(s *State, v Value, param bool) {
	if e.discovery || v.S == nil || e.quiet > 0 {
		return
	}
	var facts []string
	e.wfFacts(s, v.T, v.S, &facts)
	for _, f := range facts {
		e.assume(f)
	}
	if isFloat(v.T) {
		e.fl.addPoint(e, v.S[0], v.S[1])
		if !strings.HasPrefix(v.S[1], "(") {
			// the negation of a representable number is representable
			e.fl.addPoint(e, v.S[0], "(- "+v.S[1]+")")
		}
		e.fl.addInput(e, v.S[0], v.S[1])
	}
}

func (e *Exec) wfFacts(s *State, t types.Type, sl []string, out *[]string) {
	switch u := t.Underlying().(type) {
	case *types.Basic:
		switch {
		case u.Info()&types.IsInteger != 0:
			bits, uns := intBits(t)
			if !uns && !e.checkOverflow {
				break
			}
			if uns {
				*out = append(*out, fmt.Sprintf("(and (<= 0 %s) (<= %s %s))", sl[0], sl[0], pow2m1(bits)))
			} else {
				*out = append(*out, fmt.Sprintf("(and (<= (- %s) %s) (<= %s %s))", pow2(bits-1), sl[0], sl[0], pow2m1(bits-1)))
			}
		case u.Info()&types.IsFloat != 0:
			*out = append(*out, fmt.Sprintf("(and (<= 0 %s) (<= %s 3))", sl[0], sl[0]))
			*out = append(*out, fmt.Sprintf("(=> (= %s 0) (and (<= (- MAXF) %s) (<= %s MAXF)))", sl[0], sl[1], sl[1]))
		}
	case *types.Pointer, *types.Map, *types.Chan, *types.Signature:
		*out = append(*out, fmt.Sprintf("(< %s %s)", sl[0], e.W(s)))
	case *types.Slice:
		*out = append(*out, fmt.Sprintf("(and (<= 0 %s) (< %s %s) (<= 0 %s) (<= %s %s) (<= %s 9223372036854775807))", sl[0], sl[0], e.W(s), sl[1], sl[1], sl[2], sl[2]))
		*out = append(*out, fmt.Sprintf("(=> (= %s 0) (= %s 0))", sl[0], sl[2]))
	case *types.Interface:
		*out = append(*out, fmt.Sprintf("(and (<= 0 %s) (<= 0 %s) (< %s %s) (=> (= %s 0) (= %s 0)))", sl[0], sl[1], sl[1], e.W(s), sl[0], sl[1]))
	case *types.Struct:
		off := 0
		for i := 0; i < u.NumFields(); i++ {
			n := len(slotsOf(u.Field(i).Type()))
			e.wfFacts(s, u.Field(i).Type(), sl[off:off+n], out)
			off += n
		}
	}
}

func pow2(n int) string {
	v := new(bigInt).exp2(n)
	return v.String()
}
func pow2m1(n int) string {
	v := new(bigInt).exp2(n)
	v.sub1()
	return v.String()
}

// freshValue creates an unconstrained value of type t.
func (e *Exec) freshValue(prefix string, t types.Type) Value {
	if tup, ok := t.(*types.Tuple); ok {
		v := Value{T: t}
		for i := 0; i < tup.Len(); i++ {
			v.Tup = append(v.Tup, e.freshValue(fmt.Sprintf("%s.%d", prefix, i), tup.At(i).Type()))
		}
		return v
	}
	sl := slotsOf(t)
	v := Value{T: t, S: make([]string, len(sl))}
	for i, sd := range sl {
		v.S[i] = e.freshConst(prefix+sd.Path, sd.Sort)
	}
	return v
}

// ---- merging -------------------------------------------------------------------------------------

type incoming struct {
	cond string // full edge condition (includes reach of the predecessor)
	st   *State
}

func (e *Exec) mergeStates(ins []incoming) *State {
	if len(ins) == 1 {
		return ins[0].st.clone()
	}
	out := &State{cells: map[*ssa.Alloc][]string{}, comp: map[string]string{}}
	// cells present in all incoming states
	cellSet := map[*ssa.Alloc]int{}
	for _, in := range ins {
		for c := range in.st.cells {
			cellSet[c]++
		}
	}
	var cells []*ssa.Alloc
	for c, n := range cellSet {
		if n == len(ins) {
			cells = append(cells, c)
		}
	}
	sort.Slice(cells, func(i, j int) bool {
		return cells[i].Pos() < cells[j].Pos() || (cells[i].Pos() == cells[j].Pos() && cells[i].Name() < cells[j].Name())
	})
	for _, c := range cells {
		sl := slotsOf(c.Type().(*types.Pointer).Elem())
		n := len(ins[0].st.cells[c])
		merged := make([]string, n)
		for i := 0; i < n; i++ {
			terms := make([]string, len(ins))
			for k, in := range ins {
				terms[k] = in.st.cells[c][i]
			}
			merged[i] = e.mergeTerms("m_"+c.Comment, sl[i].Sort, ins, terms)
		}
		out.cells[c] = merged
	}
	compSet := map[string]bool{}
	for _, in := range ins {
		for k := range in.st.comp {
			compSet[k] = true
		}
	}
	var comps []string
	for k := range compSet {
		comps = append(comps, k)
	}
	sort.Strings(comps)
	for _, k := range comps {
		terms := make([]string, len(ins))
		for i, in := range ins {
			terms[i] = e.compTerm(in.st, k, e.compSort[k])
		}
		out.comp[k] = e.mergeTerms("m_"+k, e.compSort[k], ins, terms)
	}
	return out
}

func (e *Exec) mergeTerms(prefix, sort string, ins []incoming, terms []string) string {
	same := true
	for _, t := range terms[1:] {
		if t != terms[0] {
			same = false
		}
	}
	if same {
		return terms[0]
	}
	t := terms[len(terms)-1]
	for i := len(terms) - 2; i >= 0; i-- {
		t = "(ite " + ins[i].cond + " " + terms[i] + " " + t + ")"
	}
	return e.define(prefix, sort, t)
}

// ---- strings -------------------------------------------------------------------------------------

func (e *Exec) strConst(s string) string {
	if s == "" {
		e.ensureStrDecls()
		return "str!empty"
	}
	if n, ok := e.strConsts[s]; ok {
		return n
	}
	e.ensureStrDecls()
	n := fmt.Sprintf("str!c%d", len(e.strConsts)+1)
	if !e.discovery {
		e.vc.add(fmt.Sprintf("(declare-const %s Str) ; %q", n, truncate(s, 60)))
		e.vc.add(fmt.Sprintf("(assert (= (strlen %s) %d))", n, len(s)))
		e.vc.add(fmt.Sprintf("(assert (= (strid %s) %d))", n, len(e.strConsts)+1))
	}
	e.strConsts[s] = n
	return n
}

func (e *Exec) ensureStrDecls() {}

// decimalAxioms: formatting an integer and parsing it back give the integer; a formatted integer has no
// surrounding white space. Emitted once per VC, only where a contract uses atoi / trimsp.
func (e *Exec) decimalAxioms() {
	if e.discovery || e.vc.declared["decimal-axioms"] {
		return
	}
	e.vc.declared["decimal-axioms"] = true
	e.vc.add("(assert (forall ((v!d Int)) (! (= (atoi (strfromint v!d)) v!d) :pattern ((strfromint v!d)))))")
	e.vc.add("(assert (forall ((v!d Int)) (! (= (trimsp (strfromint v!d)) (strfromint v!d)) :pattern ((strfromint v!d)))))")
}

func truncate(s string, n int) string {
	s = strings.ReplaceAll(s, "\n", "\\n")
	if len(s) > n {
		return s[:n] + "…"
	}
	return s
}

// preamble emitted at the start of every VC
func preamble() []string {
	return []string{
		"(set-option :produce-models true)",
		"(set-logic ALL)",
		"(declare-sort Str 0)",
		"(declare-const str!empty Str)",
		"(declare-fun strlen (Str) Int)",
		"(declare-fun strid (Str) Int)", // distinct literals get distinct ids
		"(declare-fun strcat (Str Str) Str)",
		"(declare-fun strsub (Str Int Int) Str)",
		"(declare-fun strfromint (Int) Str)",
		"(declare-fun strofbytes (Int) Str)",
		"(declare-fun atoi (Str) Int)",    // the integer a decimal text denotes (unconstrained for other texts)
		"(declare-fun trimsp (Str) Str)",  // strings.TrimSpace
		"(declare-fun bytesof (Str) Int)", // the backing array of []byte(s): strofbytes(bytesof(s)) = s
		"(declare-fun pathjoin (Str Str) Str)",
		"(declare-fun fieldaddr (Int Int) Int)", // address of an interior field (component id, object ref): positive, so never a package-level variable
		"(assert (= (strlen str!empty) 0))",
		"(assert (= (strid str!empty) 0))",
		"(assert (forall ((s Str)) (! (>= (strlen s) 0) :pattern ((strlen s)))))",
		"(assert (forall ((s Str)) (! (=> (= (strlen s) 0) (= s str!empty)) :pattern ((strlen s)))))",
		"(declare-fun rnd64 (Real) Real)",
		"(declare-fun rnd32 (Real) Real)",
		"(declare-fun rmul (Real Real) Real)", "(declare-fun rdiv (Real Real) Real)",
		"(declare-fun fk_add (Int Real Int Real) Int)", "(declare-fun fk_sub (Int Real Int Real) Int)", "(declare-fun fk_mul (Int Real Int Real) Int)",
		"(declare-fun fk_div (Int Real Int Real) Int)", "(declare-fun fv_div (Int Real Int Real) Real)", "(declare-fun fk_32 (Int Real) Int)",
		"(define-fun absr ((x Real)) Real (ite (>= x 0.0) x (- x)))",
		"(define-fun EPS53 () Real (/ 1.0 9007199254740992.0))",
		"(define-fun EPS24 () Real (/ 1.0 16777216.0))",
		"(define-fun TINY32 () Real (/ 1.0 713623846352979940529142984724747568191373312.0))",
		"(define-fun TINY () Real (/ 1.0 404804506614621236704990693437834614099113299528284236713802716054860679135990693783920767402874248990374155728633623822779617474771586953734026799881477019843034848553132722728933815484186432682479535356945490137124014966849385397236206711298319112681620113024717539104666829230461005064372655017292012526615415482186989568.0))",
		"(define-fun trunc ((x Real)) Int (ite (>= x 0.0) (to_int x) (- (to_int (- x)))))",
		"(declare-fun f2i64 (Int Real) Int)", "(declare-fun f2i32 (Int Real) Int)", "(declare-fun f2i16 (Int Real) Int)", "(declare-fun f2i8 (Int Real) Int)",
		"(declare-fun f2u64 (Int Real) Int)", "(declare-fun f2u32 (Int Real) Int)", "(declare-fun f2u16 (Int Real) Int)", "(declare-fun f2u8 (Int Real) Int)",
		"(define-fun MAXF () Real 179769313486231570814527423731704356798070567525844996598917476803157260780028538760589558632766878171540458953514382464234321326889464182768467546703537516986049910576551282076245490090389328944075868508455133942304583236903222948165808559332123348274797826204144723168738177180919299881250404026184124858368.0)",
		"(define-fun absi ((x Int)) Int (ite (>= x 0) x (- x)))",
		"(define-fun-rec sumto ((a (Array Int Int)) (n Int)) Int (ite (<= n 0) 0 (+ (sumto a (- n 1)) (select a (- n 1)))))",
		"(define-fun tdiv ((a Int) (b Int)) Int (ite (>= a 0) (ite (> b 0) (div a b) (- (div a (- b)))) (ite (> b 0) (- (div (- a) b)) (div (- a) (- b)))))",
		"(define-fun tmod ((a Int) (b Int)) Int (- a (* b (tdiv a b))))",
	}
}

// ---- tiny big-int helper (powers of two only) ---------------------------------------------------

type bigInt struct{ digits []int } // little-endian decimal

func (b *bigInt) exp2(n int) *bigInt {
	b.digits = []int{1}
	for i := 0; i < n; i++ {
		carry := 0
		for j := range b.digits {
			v := b.digits[j]*2 + carry
			b.digits[j] = v % 10
			carry = v / 10
		}
		if carry > 0 {
			b.digits = append(b.digits, carry)
		}
	}
	return b
}
func (b *bigInt) sub1() {
	for j := range b.digits {
		if b.digits[j] > 0 {
			b.digits[j]--
			return
		}
		b.digits[j] = 9
	}
}
func (b *bigInt) String() string {
	var sb strings.Builder
	for i := len(b.digits) - 1; i >= 0; i-- {
		sb.WriteByte(byte('0' + b.digits[i]))
	}
	return sb.String()
}

// splitAnd returns the top-level conjuncts of "(and a b ...)" (recursively flattened).
func splitAnd(t string) []string {
	if !strings.HasPrefix(t, "(and ") || !strings.HasSuffix(t, ")") {
		return []string{t}
	}
	inner := t[5 : len(t)-1]
	var parts []string
	depth, start := 0, 0
	for i := 0; i < len(inner); i++ {
		switch inner[i] {
		case '(':
			depth++
		case ')':
			depth--
			if depth < 0 {
				return []string{t}
			}
		case ' ':
			if depth == 0 {
				if i > start {
					parts = append(parts, inner[start:i])
				}
				start = i + 1
			}
		}
	}
	if start < len(inner) {
		parts = append(parts, inner[start:])
	}
	if depth != 0 {
		return []string{t}
	}
	var out []string
	for _, p := range parts {
		out = append(out, splitAnd(p)...)
	}
	return out
}
