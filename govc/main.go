package main

import (
	"fmt"
	"os"
	"strings"
)

func main() {
	if len(os.Args) < 2 {
		fmt.Fprintln(os.Stderr, "usage: govc <ssadump|check|...>")
		os.Exit(2)
	}
	switch os.Args[1] {
	case "check":
		os.Exit(cmdCheck(os.Args[2:]))
	case "recipes":
		os.Exit(cmdRecipes(os.Args[2:]))
	case "replay":
		os.Exit(cmdReplay(os.Args[2:]))
	case "genparams":
		os.Exit(cmdGenParams(os.Args[2:]))
	case "gengetters":
		os.Exit(cmdGenGetters(os.Args[2:]))
	case "list":
		os.Exit(cmdList(os.Args[2:]))
	case "ssadump":
		repo := "/repo"
		p, err := loadProgram(repo)
		if err != nil {
			fmt.Fprintln(os.Stderr, err)
			os.Exit(2)
		}
		fns := p.allFunctions()
		for _, k := range sortedKeys(fns) {
			for _, pat := range os.Args[2:] {
				if strings.Contains(k, pat) {
					fmt.Printf("=== %s\n", k)
					fns[k].WriteTo(os.Stdout)
				}
			}
		}
	}
}
